use grin_chain::types::Options;
use grin_core::core::hash::Hashed;
use vcommon::ledger::RefLedger;
use vcommon::snapshot::*;
use vcommon::world::*;
use vcommon::{Prng, Scratch};

fn main() {
	init_globals(true);
	let sc = Scratch::new("probe");
	let w = World::new(42);
	let mut prng = Prng::new(1);
	let (gen, gcoin) = w.genesis();
	let chain = open_chain(&sc.sub("a"), &gen).unwrap();
	let mut ledger = RefLedger::new(&gen);
	let t = std::time::Instant::now();
	let mut coins = vec![gcoin];
	let mut key = 1u32;
	let mut tip = gen.hash();
	for i in 1..=14u64 {
		let mut txs = vec![];
		if i == 6 || i == 9 {
			let c = coins.remove(0);
			let (tx, outs) = w.spend(&mut prng, &[c], 2, 2_000_000, &mut key);
			txs.push(tx);
			coins.extend(outs);
		}
		let k = w.key(key);
		key += 1;
		let mode = if i % 2 == 0 { PowMode::Real } else { PowMode::Real };
		let b = ledger.make_block(&w, &mut prng, &tip, &txs, &k, mode, 60).unwrap();
		coins.push(w.coin(grin_core::consensus::reward(txs.iter().map(|t| t.fee()).sum()), &k, true));
		tip = b.hash();
		let r = chain.process_block(b, Options::NONE);
		println!("{} {} {:?}", i, tip, r.map(|t| t.map(|t| t.height)));
		let commits = all_commits(&ledger);
		let s = snapshot(&chain, &commits).unwrap();
		let st = ledger.state_at(&tip);
		if let Some(d) = compare_with_ref(&s, &st) { println!("DIFF: {}", d); }
	}
	chain.validate(false).unwrap();
	println!("ledger-built 14 blocks: {:?}", t.elapsed());
	// skip-pow fork from height 10 with more work
	let fork_prev = chain.get_header_by_height(10).unwrap().hash();
	let k = w.key(key);
	let b = ledger.make_block(&w, &mut prng, &fork_prev, &[], &k, PowMode::Skip { difficulty: 100000 }, 30).unwrap();
	let ft = b.hash();
	println!("fork: {:?}", chain.process_block(b, Options::SKIP_POW).map(|t| t.map(|t| t.height)));
	let commits = all_commits(&ledger);
	let s = snapshot(&chain, &commits).unwrap();
	let st = ledger.state_at(&ft);
	println!("after reorg diff: {:?}", compare_with_ref(&s, &st));
	println!("head {:?}", chain.head().unwrap().height);
}
