use grin_chain::types::Options;
use grin_core::core::hash::Hashed;
use vcommon::world::*;
use vcommon::{Prng, Scratch};

fn main() {
	init_globals(true);
	let sc = Scratch::new("probe");
	let w = World::new(42);
	let mut prng = Prng::new(1);
	let (gen, gcoin) = w.genesis();
	let chain = open_chain(&sc.sub("a"), &gen).unwrap();
	let t = std::time::Instant::now();
	let mut coins = vec![gcoin];
	let mut key = 1u32;
	for i in 1..=14u64 {
		let prev = chain.head_header().unwrap();
		let mut txs = vec![];
		if i == 6 {
			let (tx, outs) = w.spend(&mut prng, &[coins[0].clone()], 2, 2_000_000, &mut key);
			tx.validate(grin_core::core::transaction::Weighting::AsTransaction).unwrap();
			txs.push(tx);
			coins.extend(outs);
		}
		let k = w.key(key);
		key += 1;
		let b = build_block(&chain, &w, &mut prng, &prev, &txs, &k, PowMode::Real, 60).unwrap();
		coins.push(w.coin(grin_core::consensus::reward(txs.iter().map(|t| t.fee()).sum()), &k, true));
		let h = b.hash();
		let r = chain.process_block(b, Options::NONE);
		println!("{} {} {:?}", i, h, r.map(|t| t.map(|t| t.height)));
	}
	chain.validate(false).unwrap();
	println!("real pow 14 blocks: {:?}", t.elapsed());
	// skip-pow fork from height 10
	let fork_prev = chain.get_header_by_height(10).unwrap();
	let k = w.key(key);
	let b = build_block(&chain, &w, &mut prng, &fork_prev, &[], &k, PowMode::Skip { difficulty: 1000 }, 30).unwrap();
	println!("fork: {:?}", chain.process_block(b, Options::SKIP_POW).map(|t| t.map(|t| t.height)));
	println!("head {:?}", chain.head().unwrap().height);
}
