//! C04 — Only headers obeying height, time, version, difficulty and PoW rules pass.
//!
//! Part A: real-PoW AutomatedTesting chains (header versions 1..5, DMA and WTEMA
//! eras) built by the reference ledger; every header is mutated in one field
//! (re-mined when the field is part of the PoW pre-image, so that only the
//! targeted rule is violated) and delivered through `process_block_header`,
//! `sync_block_headers` (single and batch), `process_block` and the untrusted
//! reader. Oracle: construction labels.
//!
//! Part B: `consensus::next_difficulty` as a pure function against an
//! independent u128 reference (`refdiff`) on four chain types, every era and
//! adversarial windows: panic / determinism / minimum / damp+clamp bounds /
//! equality with the reference.

use chrono::Duration;
use grin_chain::types::{Options, Tip};
use grin_chain::Chain;
use grin_core::consensus::{self, HeaderDifficultyInfo};
use grin_core::core::hash::{Hash, Hashed};
use grin_core::core::{Block, BlockHeader, HeaderVersion, UntrustedBlockHeader};
use grin_core::global::{self, ChainTypes};
use grin_core::pow::{self, Difficulty};
use grin_core::ser::{self, DeserializationMode, ProtocolVersion};
use serde_json::{json, Value};
use std::collections::{BTreeMap, HashMap};
use std::sync::Mutex;
use std::time::{Duration as StdDuration, Instant};
use vcommon::ledger::RefLedger;
use vcommon::monitor;
use vcommon::prng::{fnv64, Prng};
use vcommon::world::{init_globals, init_thread, open_chain, PowMode, World};
use vcommon::{Run, Scratch};

// =====================================================================
// Reference difficulty (independent, u128, written from the definition)
// =====================================================================
mod refdiff {
	/// One window entry (the window is passed newest first).
	#[derive(Clone, Copy, Debug, PartialEq)]
	pub struct E {
		pub ts: u64,
		pub diff: u64,
		pub scal: u32,
		pub sec: bool,
	}

	#[derive(Clone, Copy, Debug, PartialEq, Eq, Hash, PartialOrd, Ord)]
	pub enum Net {
		Auto,
		User,
		Test,
		Main,
	}

	impl Net {
		pub fn name(&self) -> &'static str {
			match self {
				Net::Auto => "AutomatedTesting",
				Net::User => "UserTesting",
				Net::Test => "Testnet",
				Net::Main => "Mainnet",
			}
		}
	}

	// The constants of the definition (own copies, not imported).
	const TARGET_SPACING: u128 = 60; // seconds per block
	const WINDOW: usize = 60; // blocks in the moving average
	const WINDOW_SPAN: u128 = 3600; // WINDOW * TARGET_SPACING
	const DAMP: u128 = 3;
	const CLAMP: u128 = 2;
	const AR_DAMP: u128 = 13;
	const HALF_LIFE: u128 = 4 * 3600;
	const WEEK: u64 = 7 * 1440;
	const YEAR: u64 = 52 * WEEK;
	pub const MIN_DMA: u128 = 3;
	pub const MIN_AR: u128 = 13;

	/// Graph weight at height 0 of a graph with `edge_bits` on a net whose base is `base`.
	fn weight0(edge_bits: u32, base: u32) -> u128 {
		(2u128 << (edge_bits - base)) * edge_bits as u128
	}

	/// Minimum difficulty after the last hard fork.
	pub fn min_wtema(net: Net) -> u128 {
		match net {
			Net::Auto => weight0(10, 10),
			Net::User => weight0(15, 15),
			Net::Test => weight0(29, 24),
			Net::Main => weight0(32, 24),
		}
	}

	/// Scaling given to simulated pre-genesis entries.
	fn initial_scale(net: Net) -> u128 {
		match net {
			Net::Auto => weight0(10, 10),
			Net::User => weight0(15, 15),
			Net::Test | Net::Main => weight0(29, 24),
		}
	}

	/// Header version scheduled for a height (no truncation: heights where the
	/// shipped `as u16` cast would wrap are not used by the check).
	pub fn version(net: Net, height: u64) -> u64 {
		match net {
			Net::Main => std::cmp::min(5, 1 + height / (YEAR / 2)),
			Net::Auto | Net::User => std::cmp::min(5, 1 + height / 3),
			Net::Test => {
				let forks = [185_040u64, 298_080, 552_960, 642_240];
				1 + forks.iter().filter(|f| height >= **f).count() as u64
			}
		}
	}

	#[derive(Clone, Debug)]
	pub struct Expect {
		/// the exact next difficulty in wide arithmetic
		pub diff: u128,
		/// wide secondary scaling (DMA only; 0 for WTEMA)
		pub scaling: u128,
		/// bounds that follow from damp + clamp, relative to the window
		pub lo: u128,
		pub hi: u128,
		/// minimum of the era
		pub min: u128,
		/// sum of the difficulties of the *real* entries that are used
		pub real_sum: u128,
		/// a u64 product of the shipped formula exceeds 64 bits for this window
		pub overflow: Option<&'static str>,
	}

	#[derive(Clone, Debug)]
	pub enum Ref {
		/// the definition does not cover this window (reason)
		Undefined(&'static str),
		Defined(Expect),
	}

	fn clamp(v: u128, goal: u128) -> u128 {
		let lo = goal / CLAMP;
		let hi = goal * CLAMP;
		if v < lo {
			lo
		} else if v > hi {
			hi
		} else {
			v
		}
	}

	pub fn next(net: Net, height: u64, newest_first: &[E]) -> Ref {
		if version(net, height) < 5 {
			dma(net, height, newest_first)
		} else {
			wtema(net, newest_first)
		}
	}

	/// Damped moving average. The window needs WINDOW+1 entries; missing old
	/// entries are simulated: spaced like the two newest real ones (target
	/// spacing if there is only one), never before time 0, with the newest
	/// real difficulty, the initial scaling and the secondary flag set.
	fn dma(net: Net, height: u64, w: &[E]) -> Ref {
		if w.is_empty() {
			return Ref::Undefined("empty_window");
		}
		let n = std::cmp::min(w.len(), WINDOW + 1);
		let used = &w[..n];
		let newest = used[0];
		let in_avg = std::cmp::min(n, WINDOW); // real entries that are averaged
		let padded_in_avg = (WINDOW - in_avg) as u128;

		let mut real_sum: u128 = 0;
		let mut scale_sum: u128 = 0;
		let mut sec_blocks: u128 = 0;
		for e in &used[..in_avg] {
			real_sum += e.diff as u128;
			scale_sum += e.scal as u128;
			if e.sec {
				sec_blocks += 1;
			}
		}
		let diff_sum = real_sum + padded_in_avg * newest.diff as u128;
		scale_sum += padded_in_avg * initial_scale(net);
		sec_blocks += padded_in_avg;

		// the far end of the window
		let oldest_ts: u128 = if n == WINDOW + 1 {
			used[WINDOW].ts as u128
		} else {
			let step: u128 = if n >= 2 {
				if used[0].ts < used[1].ts {
					return Ref::Undefined("negative_pad_step");
				}
				(used[0].ts - used[1].ts) as u128
			} else {
				TARGET_SPACING
			};
			let missing = (WINDOW + 1 - n) as u128;
			(used[n - 1].ts as u128).saturating_sub(step * missing)
		};
		if (newest.ts as u128) < oldest_ts {
			return Ref::Undefined("negative_window_span");
		}
		let span = newest.ts as u128 - oldest_ts;
		let damped = (span + (DAMP - 1) * WINDOW_SPAN) / DAMP;
		let adj = clamp(damped, WINDOW_SPAN);
		let diff = std::cmp::max(MIN_DMA, diff_sum * TARGET_SPACING / adj);

		// secondary scaling: same scheme on the share of secondary blocks
		let pct = 90u128.saturating_sub((height / (2 * YEAR / 90)) as u128);
		let goal = WINDOW as u128 * pct;
		let share = 100 * sec_blocks;
		let adj_share = clamp((share + (AR_DAMP - 1) * goal) / AR_DAMP, goal);
		let scaling = std::cmp::max(MIN_AR, scale_sum * pct / std::cmp::max(1, adj_share));

		let overflow = if diff_sum * TARGET_SPACING > u64::MAX as u128 {
			Some("u64_overflow:diff_sum*BLOCK_TIME_SEC")
		} else {
			None
		};
		Ref::Defined(Expect {
			diff,
			scaling,
			lo: std::cmp::max(MIN_DMA, diff_sum * TARGET_SPACING / (WINDOW_SPAN * CLAMP)),
			hi: std::cmp::max(MIN_DMA, diff_sum * TARGET_SPACING / (WINDOW_SPAN / CLAMP)),
			min: MIN_DMA,
			real_sum,
			overflow,
		})
	}

	/// Exponential moving average on the last block time only.
	fn wtema(net: Net, w: &[E]) -> Ref {
		if w.len() < 2 {
			return Ref::Undefined("fewer_than_two_headers");
		}
		if w[0].ts < w[1].ts {
			return Ref::Undefined("negative_block_time");
		}
		let t = (w[0].ts - w[1].ts) as u128;
		let last = w[0].diff as u128;
		let floor = min_wtema(net);
		let raw = last * HALF_LIFE / (HALF_LIFE - TARGET_SPACING + t);
		let diff = std::cmp::max(floor, std::cmp::max(raw, 1));
		let overflow = if last * HALF_LIFE > u64::MAX as u128 {
			Some("u64_overflow:last_diff*WTEMA_HALF_LIFE")
		} else {
			None
		};
		Ref::Defined(Expect {
			diff,
			scaling: 0,
			lo: floor,
			hi: std::cmp::max(floor, last * HALF_LIFE / (HALF_LIFE - TARGET_SPACING)),
			min: floor,
			real_sum: last + w[1].diff as u128,
			overflow,
		})
	}
}

use refdiff::{Net, Ref, E};

fn to_info(w: &[E]) -> Vec<HeaderDifficultyInfo> {
	w.iter()
		.map(|e| HeaderDifficultyInfo {
			hash: None,
			timestamp: e.ts,
			difficulty: Difficulty::from_num(e.diff),
			secondary_scaling: e.scal,
			is_secondary: e.sec,
		})
		.collect()
}

fn window_json(w: &[E]) -> Value {
	Value::Array(
		w.iter()
			.map(|e| json!([e.ts, e.diff, e.scal, e.sec]))
			.collect(),
	)
}

// =====================================================================
// Part A
// =====================================================================

#[derive(Clone, Copy, PartialEq, Debug)]
enum Label {
	/// violates a rule of the statement: must be rejected everywhere
	Invalid,
	/// a different but rule-abiding header: must be accepted
	Valid,
}

#[derive(Clone)]
struct Mutant {
	field: &'static str,
	kind: String,
	header: BlockHeader,
	label: Label,
	/// error variants that show the targeted rule fired
	expect: &'static [&'static str],
	/// has the same proof (hence the same hash) as the honest header
	same_hash: bool,
}

#[derive(Clone, Copy, PartialEq, Eq, Debug, PartialOrd, Ord)]
enum Entry {
	Pbh,
	Sync1,
	SyncBatch,
	Pb,
	Reader,
}

impl Entry {
	fn name(&self) -> &'static str {
		match self {
			Entry::Pbh => "process_block_header",
			Entry::Sync1 => "sync_block_headers[1]",
			Entry::SyncBatch => "sync_block_headers[k/n]",
			Entry::Pb => "process_block",
			Entry::Reader => "UntrustedBlockHeader::read",
		}
	}
}

#[derive(Debug, Clone)]
enum Outcome {
	Ok,
	Err(String),
	Panic(String),
}

fn err_variant<T: std::fmt::Debug>(e: &T) -> String {
	let s = format!("{:?}", e);
	let v: String = s
		.chars()
		.take_while(|c| c.is_ascii_alphanumeric() || *c == '_')
		.collect();
	if v == "Block" {
		// keep the inner variant of block errors
		let inner: String = s
			.chars()
			.skip(6)
			.take_while(|c| c.is_ascii_alphanumeric() || *c == '_')
			.collect();
		format!("Block:{}", inner)
	} else {
		v
	}
}

fn guarded<T, Er: std::fmt::Debug>(f: impl FnOnce() -> Result<T, Er>) -> Outcome {
	match monitor::catch(f) {
		Ok(Ok(_)) => Outcome::Ok,
		Ok(Err(e)) => Outcome::Err(err_variant(&e)),
		Err(p) => Outcome::Panic(p.location),
	}
}

/// Capped miner: finds a Cuckatoo cycle whose difficulty reaches `target`.
fn mine_capped(h: &mut BlockHeader, target: u64, max_tries: u32) -> bool {
	let eb = global::min_edge_bits();
	h.pow.proof.edge_bits = eb;
	for _ in 0..max_tries {
		let mut ctx = match global::create_pow_context::<u32>(h.height, eb, global::proofsize(), 10) {
			Ok(c) => c,
			Err(_) => return false,
		};
		if ctx.set_header_nonce(h.pre_pow(), None, true).is_err() {
			return false;
		}
		if let Ok(proofs) = ctx.find_cycles() {
			if let Some(p) = proofs.into_iter().next() {
				h.pow.proof = p;
				if h.pow.to_difficulty(h.height).to_num() >= target {
					return true;
				}
			}
		}
		h.pow.nonce = h.pow.nonce.wrapping_add(1);
	}
	false
}

const MINE_TRIES: u32 = 20_000;

/// Re-mine `m` for the difficulty it claims on top of `parent_td`.
fn remine(m: &mut BlockHeader, parent_td: u64, prng: &mut Prng) -> bool {
	let claim = m.pow.total_difficulty.to_num();
	let target = if claim > parent_td { claim - parent_td } else { 1 };
	m.pow.nonce = prng.next_u64();
	mine_capped(m, target, MINE_TRIES)
}

fn flip_hash(h: &Hash, prng: &mut Prng) -> Hash {
	let mut v = h.to_vec();
	let i = prng.usize_below(v.len());
	v[i] ^= 1 << prng.below(8);
	Hash::from_vec(&v)
}

fn random_hash(prng: &mut Prng) -> Hash {
	Hash::from_vec(&prng.bytes(32))
}

const E_HEIGHT: &[&str] = &["InvalidBlockHeight"];
const E_VERSION: &[&str] = &["InvalidBlockVersion"];
const E_TIME: &[&str] = &["InvalidBlockTime"];
const E_PREV: &[&str] = &["StoreErr", "Orphan"];
const E_ROOT: &[&str] = &["InvalidRoot"];
const E_WRONG_TD: &[&str] = &["WrongTotalDifficulty"];
const E_TD_LOW: &[&str] = &["DifficultyTooLow"];
const E_SCALING: &[&str] = &["InvalidScaling"];
const E_POW: &[&str] = &["InvalidPow"];
const E_EDGE: &[&str] = &["LowEdgebits"];
const E_MMR: &[&str] = &["InvalidMMRSize"];
const E_HEAVY: &[&str] = &["Block:TooHeavy"];
const E_NONE: &[&str] = &[];
const E_HEIGHT_OR_POW: &[&str] = &["InvalidBlockHeight", "InvalidPow"];
const E_TIME_OR_POW: &[&str] = &["InvalidBlockTime", "InvalidPow"];
const E_TD_OR_POW: &[&str] = &["WrongTotalDifficulty", "InvalidPow", "DifficultyTooLow"];

struct MutStats {
	mine_failed: u64,
	/// PoW-only mutants that happen to be valid proofs (e.g. a Cuckatoo10 cycle
	/// is also a Cuckatoo11 cycle with probability 2^-8): not mutants at all
	accidentally_valid_pow: u64,
}

/// All single-field mutants of honest header `h` (child of `parent`).
fn gen_mutants(
	h: &BlockHeader,
	parent: &BlockHeader,
	grandparent: Option<&BlockHeader>,
	prng: &mut Prng,
	st: &mut MutStats,
) -> Vec<Mutant> {
	let ptd = parent.pow.total_difficulty.to_num();
	let htd = h.pow.total_difficulty.to_num();
	let v5 = h.version >= HeaderVersion(5);
	let mut out: Vec<Mutant> = vec![];

	// `mined`: the mutated field is part of the pre-image, find a new proof so
	// that PoW itself is fine.
	let mut push = |field: &'static str,
	                kind: &str,
	                mut m: BlockHeader,
	                label: Label,
	                expect: &'static [&'static str],
	                mined: bool,
	                prng: &mut Prng| {
		if mined {
			if !remine(&mut m, ptd, prng) {
				st.mine_failed += 1;
				return;
			}
		}
		if m == *h {
			return;
		}
		out.push(Mutant {
			field,
			kind: kind.to_string(),
			same_hash: m.pow.proof == h.pow.proof,
			header: m,
			label,
			expect,
		});
	};

	// ---- height
	for (k, nh) in [
		("plus1", h.height + 1),
		("minus1", h.height - 1),
		("zero", 0u64),
		("huge", u64::MAX),
		("plus3_next_era", h.height + 3),
	] {
		if nh == h.height {
			continue;
		}
		let mut m = h.clone();
		m.height = nh;
		push("height", k, m, Label::Invalid, E_HEIGHT, true, prng);
	}
	{
		let mut m = h.clone();
		m.height = h.height + 1;
		push("height", "plus1_unmined", m, Label::Invalid, E_HEIGHT_OR_POW, false, prng);
	}

	// ---- timestamp
	for (k, d) in [("eq_parent", 0i64), ("parent_minus1", -1), ("parent_minus1000", -1000)] {
		let mut m = h.clone();
		m.timestamp = parent.timestamp + Duration::seconds(d);
		push("timestamp", k, m, Label::Invalid, E_TIME, true, prng);
	}
	{
		let mut m = h.clone();
		m.timestamp = parent.timestamp;
		push("timestamp", "eq_parent_unmined", m, Label::Invalid, E_TIME_OR_POW, false, prng);
		// strictly later by one second: the smallest valid step
		let mut m = h.clone();
		m.timestamp = parent.timestamp + Duration::seconds(1);
		push("timestamp", "parent_plus1", m, Label::Valid, E_NONE, true, prng);
	}

	// ---- version
	let v = h.version.0;
	let mut vs: Vec<(String, u16)> = vec![
		("plus1".into(), v + 1),
		("minus1".into(), v - 1),
		("zero".into(), 0),
		("six".into(), 6),
		("max".into(), u16::MAX),
	];
	vs.dedup_by_key(|x| x.1);
	let mut seen = vec![];
	for (k, nv) in vs {
		if nv == v || seen.contains(&nv) {
			continue;
		}
		seen.push(nv);
		let mut m = h.clone();
		m.version = HeaderVersion(nv);
		push("version", &k, m, Label::Invalid, E_VERSION, true, prng);
	}

	// ---- prev_hash
	{
		let mut m = h.clone();
		m.prev_hash = random_hash(prng);
		push("prev_hash", "random", m, Label::Invalid, E_PREV, true, prng);
		let mut m = h.clone();
		m.prev_hash = flip_hash(&h.prev_hash, prng);
		push("prev_hash", "bitflip", m, Label::Invalid, E_PREV, true, prng);
		if let Some(gp) = grandparent {
			// a known header, but not at height - 1
			let mut m = h.clone();
			m.prev_hash = gp.hash();
			push("prev_hash", "grandparent", m, Label::Invalid, E_HEIGHT, true, prng);
		}
	}

	// ---- prev_root
	{
		let mut m = h.clone();
		m.prev_root = flip_hash(&h.prev_root, prng);
		push("prev_root", "bitflip", m, Label::Invalid, E_ROOT, true, prng);
		let mut m = h.clone();
		m.prev_root = parent.prev_root;
		push("prev_root", "stale_parent_root", m, Label::Invalid, E_ROOT, true, prng);
		let mut m = h.clone();
		m.prev_root = random_hash(prng);
		push("prev_root", "random", m, Label::Invalid, E_ROOT, true, prng);
	}

	// ---- total_difficulty
	{
		let mut m = h.clone();
		m.pow.total_difficulty = Difficulty::from_num(htd + 1);
		push("total_difficulty", "plus1", m, Label::Invalid, E_WRONG_TD, true, prng);
		if htd - 1 > ptd {
			let mut m = h.clone();
			m.pow.total_difficulty = Difficulty::from_num(htd - 1);
			push("total_difficulty", "minus1", m, Label::Invalid, E_WRONG_TD, true, prng);
		}
		let mut m = h.clone();
		m.pow.total_difficulty = Difficulty::from_num(htd + 40);
		push("total_difficulty", "plus_big_mined", m, Label::Invalid, E_WRONG_TD, true, prng);
		// cannot be mined: violates the difficulty rule AND the PoW rule
		let mut m = h.clone();
		m.pow.total_difficulty = Difficulty::from_num(htd + (1u64 << 40));
		push("total_difficulty", "plus_huge_unmined", m, Label::Invalid, E_TD_OR_POW, false, prng);
		let mut m = h.clone();
		m.pow.total_difficulty = Difficulty::from_num(u64::MAX);
		push("total_difficulty", "max_unmined", m, Label::Invalid, E_TD_OR_POW, false, prng);
		let mut m = h.clone();
		m.pow.total_difficulty = Difficulty::from_num(ptd);
		push("total_difficulty", "eq_parent", m, Label::Invalid, E_TD_LOW, true, prng);
		if ptd > 1 {
			let mut m = h.clone();
			m.pow.total_difficulty = Difficulty::from_num(ptd - 1);
			push("total_difficulty", "lt_parent", m, Label::Invalid, E_TD_LOW, true, prng);
		}
		let mut m = h.clone();
		m.pow.total_difficulty = Difficulty::from_num(1);
		push("total_difficulty", "one", m, Label::Invalid, E_TD_LOW, true, prng);
		let mut m = h.clone();
		m.pow.total_difficulty = Difficulty::from_num(htd + 1);
		push("total_difficulty", "plus1_unmined", m, Label::Invalid, E_TD_OR_POW, false, prng);
	}

	// ---- secondary_scaling: binding before the last hard fork only
	for (k, d) in [("plus1", 1i64), ("minus1", -1)] {
		let ns = (h.pow.secondary_scaling as i64 + d) as u32;
		let mut m = h.clone();
		m.pow.secondary_scaling = ns;
		if v5 {
			push("secondary_scaling", &format!("{}_v5_free", k), m, Label::Valid, E_NONE, true, prng);
		} else {
			push("secondary_scaling", k, m, Label::Invalid, E_SCALING, true, prng);
		}
	}
	if !v5 {
		let mut m = h.clone();
		m.pow.secondary_scaling = 0;
		push("secondary_scaling", "zero", m, Label::Invalid, E_SCALING, true, prng);
	}

	// ---- nonce (pre-image changes, proof kept)
	{
		let mut m = h.clone();
		m.pow.nonce = h.pow.nonce.wrapping_add(1);
		push("nonce", "plus1", m, Label::Invalid, E_POW, false, prng);
		let mut m = h.clone();
		m.pow.nonce = prng.next_u64();
		push("nonce", "random", m, Label::Invalid, E_POW, false, prng);
		// a different nonce WITH a new proof is just another valid header
		let m = h.clone();
		push("nonce", "remined_sibling", m, Label::Valid, E_NONE, true, prng);
	}

	// ---- edge_bits
	for (k, eb, ex) in [
		("below_min_9", 9u8, E_EDGE),
		("one", 1u8, E_EDGE),
		("plus1_11", 11u8, E_POW),
		("secondary_29", 29u8, E_POW),
		("max_63", 63u8, E_POW),
	] {
		let mut m = h.clone();
		m.pow.proof.edge_bits = eb;
		push("edge_bits", k, m, Label::Invalid, ex, false, prng);
	}

	// ---- proof
	{
		let n = h.pow.proof.nonces.len();
		let i = prng.usize_below(n);
		let mut m = h.clone();
		// keep the nonces ascending and inside the graph where possible
		let cur = m.pow.proof.nonces[i];
		let next = if i + 1 < n { m.pow.proof.nonces[i + 1] } else { 1u64 << 10 };
		let nv = if cur + 1 < next { cur + 1 } else { cur.wrapping_sub(1) };
		m.pow.proof.nonces[i] = nv;
		push("proof", "one_nonce_changed", m, Label::Invalid, E_POW, false, prng);
		let mut m = h.clone();
		m.pow.proof.nonces.swap(0, n - 1);
		push("proof", "not_ascending", m, Label::Invalid, E_POW, false, prng);
		let mut m = h.clone();
		m.pow.proof.nonces.pop();
		push("proof", "short", m, Label::Invalid, E_POW, false, prng);
	}

	// ---- a VALID cycle that does not reach the (correctly claimed) network difficulty.
	// Only possible when the network difficulty exceeds the weight of the graph (20).
	{
		let d = htd - ptd;
		if d > 20 {
			for _ in 0..64 {
				let mut m = h.clone();
				m.pow.nonce = prng.next_u64();
				if mine_capped(&mut m, 1, 2_000) && m.pow.to_difficulty(m.height).to_num() < d {
					push("proof", "valid_cycle_below_target", m, Label::Invalid, E_TD_LOW, false, prng);
					break;
				}
			}
		}
	}

	// ---- MMR sizes (what a header-only check can know)
	for (field, cur, par) in [
		("output_mmr_size", h.output_mmr_size, parent.output_mmr_size),
		("kernel_mmr_size", h.kernel_mmr_size, parent.kernel_mmr_size),
	] {
		let _ = cur;
		let mut cases: Vec<(&str, u64, &'static [&'static str])> = vec![
			("zero", 0, E_MMR),
			("eq_parent", par, E_MMR),
			("huge_2p40", 1u64 << 40, E_HEAVY),
			("max", u64::MAX, E_HEAVY),
		];
		if par > 1 {
			cases.push(("lt_parent", par - 1, E_MMR));
		}
		for (k, nv, ex) in cases {
			let mut m = h.clone();
			if field == "output_mmr_size" {
				m.output_mmr_size = nv;
			} else {
				m.kernel_mmr_size = nv;
			}
			push(field, k, m, Label::Invalid, ex, true, prng);
		}
	}

	// Mutants whose ONLY defect is meant to be an invalid cycle are labelled by
	// construction; the construction fails with small probability (the kept proof
	// can still be a cycle of the changed graph). The cycle verifier is trusted
	// here (C05 checks it), so such accidental valid proofs are dropped.
	let before = out.len();
	out.retain(|m| {
		!(m.label == Label::Invalid
			&& m.expect == E_POW
			&& m.header.pow.proof.nonces.len() == global::proofsize()
			&& pow::verify_size(&m.header).is_ok())
	});
	st.accidentally_valid_pow += (before - out.len()) as u64;

	out
}

/// Evidence that `m` became part of the receiving chain.
fn accepted_trace(chain: &Chain, m: &BlockHeader) -> Option<&'static str> {
	let hash = m.hash();
	if let Ok(stored) = chain.get_block_header(&hash) {
		if stored == *m {
			if let Ok(hh) = chain.header_head() {
				if hh.last_block_h == hash {
					return Some("became_header_head");
				}
			}
			return Some("stored_header");
		}
	}
	if let Ok(b) = chain.get_block(&hash) {
		if b.header == *m {
			return Some("stored_block");
		}
	}
	None
}

fn deliver(chain: &Chain, entry: Entry, m: &BlockHeader, body: &Block) -> Outcome {
	match entry {
		Entry::Pbh => guarded(|| chain.process_block_header(m, Options::NONE)),
		Entry::Sync1 => {
			let sync_head: Tip = chain.header_head().expect("header_head");
			guarded(|| chain.sync_block_headers(&[m.clone()], sync_head, Options::NONE))
		}
		Entry::Pb => {
			let b = Block {
				header: m.clone(),
				body: body.body.clone(),
			};
			guarded(|| chain.process_block(b, Options::NONE))
		}
		_ => unreachable!(),
	}
}

fn deliver_batch(chain: &Chain, batch: &[BlockHeader]) -> Outcome {
	let sync_head: Tip = chain.header_head().expect("header_head");
	guarded(|| chain.sync_block_headers(batch, sync_head, Options::NONE))
}

fn read_untrusted(h: &BlockHeader) -> Outcome {
	let bytes = match ser::ser_vec(h, ProtocolVersion::local()) {
		Ok(b) => b,
		Err(e) => return Outcome::Err(format!("ser:{}", err_variant(&e))),
	};
	guarded(|| {
		ser::deserialize::<UntrustedBlockHeader, _>(
			&mut &bytes[..],
			ProtocolVersion::local(),
			DeserializationMode::default(),
		)
	})
}

/// Shared tallies of part A.
#[derive(Default)]
struct ATally {
	rejected: BTreeMap<(String, &'static str), u64>, // (field, entry) -> rejected
	honest_ok: BTreeMap<&'static str, u64>,
	valid_mutant_ok: BTreeMap<&'static str, u64>,
	expected_reason: u64,
	other_reason: BTreeMap<String, u64>,
	eras_seen: BTreeMap<u16, u64>,
	ref_difficulty_ok: u64,
	deliveries: u64,
	mine_failed: u64,
	ftl_judged: u64,
	ftl_timing_skipped: u64,
	post_known_checks: u64,
	weak_proof_rejected: u64,
	accidentally_valid_pow: u64,
	difficulties_seen: BTreeMap<u64, u64>,
}

struct ACtx<'a> {
	run: &'a Run,
	tally: &'a Mutex<ATally>,
	chain_idx: usize,
	profile: &'static str,
}

impl<'a> ACtx<'a> {
	fn sig(&self, entry: Entry, ver: u16, field: &str, kind: &str, outcome: &str) -> String {
		format!(
			"A;entry={};era=v{};field={};kind={};outcome={}",
			entry.name(),
			ver,
			field,
			kind,
			outcome
		)
	}

	/// Judge one delivery of a mutant labelled invalid.
	fn judge_invalid(
		&self,
		entry: Entry,
		chain: Option<&Chain>,
		mu: &Mutant,
		honest: &BlockHeader,
		pos: &str,
		o: &Outcome,
	) -> bool {
		let ver = honest.version.0;
		let trace = chain.and_then(|c| accepted_trace(c, &mu.header));
		let outcome_s = match o {
			Outcome::Ok => "accepted".to_string(),
			Outcome::Err(v) => format!("rejected:{}", v),
			Outcome::Panic(l) => format!("panic@{}", l),
		};
		self.run.eval(&format!("{};pos={}", self.sig(entry, ver, mu.field, &mu.kind, &outcome_s), pos), true);
		let mut t = self.tally.lock().unwrap();
		t.deliveries += 1;
		if mu.kind == "valid_cycle_below_target" && matches!(o, Outcome::Err(_)) {
			t.weak_proof_rejected += 1;
		}
		let replay = json!({
			"part": "A", "chain_idx": self.chain_idx, "profile": self.profile,
			"height": honest.height, "entry": entry.name(), "field": mu.field, "kind": mu.kind,
			"position": pos,
			"mutant_header": format!("{:?}", mu.header),
			"honest_header": format!("{:?}", honest),
		});
		match o {
			Outcome::Panic(loc) => {
				drop(t);
				self.run.violation(
					&format!(
						"partA;entry={};field={};kind={};event=panic@{}",
						entry.name(),
						mu.field,
						mu.kind,
						loc
					),
					"delivering a mutated header panics instead of being rejected",
					replay,
				);
				false
			}
			Outcome::Ok => {
				drop(t);
				self.run.violation(
					&format!(
						"partA;entry={};era=v{};field={};kind={};event=accepted",
						entry.name(),
						ver,
						mu.field,
						mu.kind
					),
					&format!(
						"header mutated in `{}` ({}) was accepted (trace: {:?})",
						mu.field, mu.kind, trace
					),
					replay,
				);
				true
			}
			Outcome::Err(v) => {
				if let Some(tr) = trace {
					drop(t);
					self.run.violation(
						&format!(
							"partA;entry={};era=v{};field={};kind={};event=rejected_but_{}",
							entry.name(),
							ver,
							mu.field,
							mu.kind,
							tr
						),
						"the entry point returned an error but the mutated header is in the chain",
						replay,
					);
					true
				} else {
					*t.rejected
						.entry((mu.field.to_string(), entry.name()))
						.or_insert(0) += 1;
					if entry == Entry::Reader || mu.expect.iter().any(|x| x == v) {
						t.expected_reason += 1;
					} else {
						*t.other_reason
							.entry(format!("{}:{}:{}->{}", entry.name(), mu.field, mu.kind, v))
							.or_insert(0) += 1;
					}
					false
				}
			}
		}
	}

	/// Judge a delivery that must succeed (honest header or valid mutant).
	fn judge_valid(
		&self,
		entry: Entry,
		chain: Option<&Chain>,
		hd: &BlockHeader,
		field: &str,
		kind: &str,
		honest: bool,
		o: &Outcome,
	) -> bool {
		let ver = hd.version.0;
		let outcome_s = match o {
			Outcome::Ok => "accepted".to_string(),
			Outcome::Err(v) => format!("rejected:{}", v),
			Outcome::Panic(l) => format!("panic@{}", l),
		};
		self.run.eval(&self.sig(entry, ver, field, kind, &outcome_s), true);
		let mut t = self.tally.lock().unwrap();
		t.deliveries += 1;
		let stored = match chain {
			Some(c) => {
				if entry == Entry::Pb {
					c.get_block(&hd.hash()).map(|b| b.header == *hd).unwrap_or(false)
				} else {
					c.get_block_header(&hd.hash()).map(|x| x == *hd).unwrap_or(false)
				}
			}
			None => true,
		};
		let ok = matches!(o, Outcome::Ok) && stored;
		if ok {
			if honest {
				*t.honest_ok.entry(entry.name()).or_insert(0) += 1;
			} else {
				*t.valid_mutant_ok.entry(entry.name()).or_insert(0) += 1;
			}
			return true;
		}
		drop(t);
		let ev = match o {
			Outcome::Ok => "ok_but_not_stored".to_string(),
			Outcome::Err(v) => format!("rejected:{}", v),
			Outcome::Panic(l) => format!("panic@{}", l),
		};
		self.run.violation(
			&format!(
				"partA;entry={};era=v{};field={};kind={};event={}",
				entry.name(),
				ver,
				field,
				kind,
				ev
			),
			"a header that obeys every rule of the statement was not accepted",
			json!({
				"part": "A", "chain_idx": self.chain_idx, "profile": self.profile,
				"height": hd.height, "entry": entry.name(), "field": field, "kind": kind,
				"header": format!("{:?}", hd),
			}),
		);
		false
	}
}

fn ts_delta(profile: &str, i: u64, prng: &mut Prng) -> i64 {
	(match profile {
		"fast" => prng.range(1, 4),
		"slow" => prng.range(200, 300),
		"bursts" => {
			if (i / 3) % 2 == 0 {
				prng.range(1, 3)
			} else {
				prng.range(120, 300)
			}
		}
		"steady60" => 60,
		_ => prng.range(1, 300),
	}) as i64
}

const PROFILES: [&str; 5] = ["random", "fast", "slow", "bursts", "steady60"];

/// One full part-A scenario: build an honest real-PoW chain, then walk it
/// height by height over the receivers.
fn part_a_chain(
	run: &Run,
	tally: &Mutex<ATally>,
	sc: &Scratch,
	ci: usize,
	n_blocks: u64,
	mutant_stride: usize,
	deadline: Instant,
) {
	init_thread(false);
	let profile = PROFILES[ci % PROFILES.len()];
	let cx = ACtx {
		run,
		tally,
		chain_idx: ci,
		profile,
	};
	let mut prng = Prng::new(run.seed ^ (0xC04A_0000 + ci as u64).wrapping_mul(0x9E37_79B9_7F4A_7C15));
	let w = World::new(run.seed.wrapping_add(ci as u64 * 7919));
	let (gen, _gcoin) = w.genesis();
	let mut ledger = RefLedger::new(&gen);

	// ---- honest chain
	let mut blocks: Vec<Block> = vec![gen.clone()];
	let mut tip = gen.hash();
	for i in 1..=n_blocks {
		let k = w.key(i as u32);
		let d = ts_delta(profile, i, &mut prng);
		let b = match ledger.make_block(&w, &mut prng, &tip, &[], &k, PowMode::Real, d) {
			Ok(b) => b,
			Err(e) => {
				run.inconclusive(&format!("chain {}: make_block at {} failed: {}", ci, i, e));
				return;
			}
		};
		tip = b.hash();
		blocks.push(b);
	}

	// ---- independent difficulty of every honest header
	for i in 1..=n_blocks as usize {
		let h = &blocks[i].header;
		let p = &blocks[i - 1].header;
		let win: Vec<E> = ledger
			.difficulty_window(&p.hash())
			.iter()
			.map(|x| E {
				ts: x.timestamp,
				diff: x.difficulty.to_num(),
				scal: x.secondary_scaling,
				sec: x.is_secondary,
			})
			.collect();
		let claimed = h.pow.total_difficulty.to_num() - p.pow.total_difficulty.to_num();
		{
			let mut t = tally.lock().unwrap();
			*t.difficulties_seen.entry(claimed).or_insert(0) += 1;
		}
		match refdiff::next(Net::Auto, h.height, &win) {
			Ref::Defined(ex) => {
				let scal_ok = if h.version < HeaderVersion(5) {
					ex.scaling == h.pow.secondary_scaling as u128
				} else {
					true
				};
				let sched_ok = refdiff::version(Net::Auto, h.height) == h.version.0 as u64;
				if ex.diff == claimed as u128 && scal_ok && sched_ok {
					tally.lock().unwrap().ref_difficulty_ok += 1;
				} else {
					run.violation(
						&format!(
							"partA;honest_header;era=v{};event=difficulty_differs_from_reference",
							h.version.0
						),
						&format!(
							"network difficulty/scaling/version of an honest header differs from the reference: claimed {} scaling {} version {}, reference {} / {} / {}",
							claimed, h.pow.secondary_scaling, h.version.0, ex.diff, ex.scaling,
							refdiff::version(Net::Auto, h.height)
						),
						json!({"part":"A","chain_idx":ci,"height":h.height,"window":window_json(&win)}),
					);
				}
			}
			Ref::Undefined(r) => run.inconclusive(&format!("reference undefined on honest window: {}", r)),
		}
	}

	// ---- receivers
	let open = |name: &str| -> Option<Chain> {
		match open_chain(&sc.sub(&format!("c{}_{}", ci, name)), &gen) {
			Ok(c) => Some(c),
			Err(e) => {
				run.inconclusive(&format!("open_chain {}: {}", name, e));
				None
			}
		}
	};
	let (r_pbh, r_sync, r_pb, r_batch) = match (open("pbh"), open("sync"), open("pb"), open("batch")) {
		(Some(a), Some(b), Some(c), Some(d)) => (a, b, c, d),
		_ => return,
	};
	let mut batch_have: usize = 0; // r_batch has headers 0..=batch_have

	let ftl = global::get_future_time_limit() as i64;

	for hgt in 1..=n_blocks as usize {
		if Instant::now() > deadline {
			run.count("partA_heights_skipped_deadline", (n_blocks as usize - hgt + 1) as u64);
			break;
		}
		let honest_block = blocks[hgt].clone();
		let honest = honest_block.header.clone();
		let parent = blocks[hgt - 1].header.clone();
		let grand = if hgt >= 2 { Some(blocks[hgt - 2].header.clone()) } else { None };
		let ver = honest.version.0;
		{
			let mut t = tally.lock().unwrap();
			*t.eras_seen.entry(ver).or_insert(0) += 1;
		}

		let mut ms = MutStats { mine_failed: 0, accidentally_valid_pow: 0 };
		let all = gen_mutants(&honest, &parent, grand.as_ref(), &mut prng, &mut ms);
		{
			let mut t = tally.lock().unwrap();
			t.mine_failed += ms.mine_failed;
			t.accidentally_valid_pow += ms.accidentally_valid_pow;
		}
		// sanitizer runs use every `mutant_stride`-th mutant (rotating with the height)
		let muts: Vec<&Mutant> = all
			.iter()
			.enumerate()
			.filter(|(i, _)| mutant_stride <= 1 || (i + hgt) % mutant_stride == 0)
			.map(|(_, m)| m)
			.collect();

		// -- 1. invalid mutants on receivers that know the ancestors only
		let mut polluted: Vec<Entry> = vec![]; // receivers that took a mutant at this height
		for mu in muts.iter().filter(|m| m.label == Label::Invalid) {
			for (entry, chain) in [(Entry::Pbh, &r_pbh), (Entry::Sync1, &r_sync), (Entry::Pb, &r_pb)] {
				let o = deliver(chain, entry, &mu.header, &honest_block);
				if cx.judge_invalid(entry, Some(chain), mu, &honest, "single", &o) {
					polluted.push(entry);
				}
			}
			// batch: honest prefix, the bad header at position k, sometimes an honest successor
			let mut batch: Vec<BlockHeader> =
				blocks[batch_have + 1..hgt].iter().map(|b| b.header.clone()).collect();
			let k = batch.len();
			batch.push(mu.header.clone());
			let mut child: Option<BlockHeader> = None;
			if hgt + 1 <= n_blocks as usize {
				if mu.field == "prev_root" {
					// The root is checked after the whole batch went through the per-header
					// rules, walking back from the LAST header: follow the bad header with a
					// child that is perfect given its parent (own MMR root over the mutant).
					let st = ledger.state_at(&parent.hash());
					let mut mmr = st.header_mmr.clone();
					mmr.push(&parent);
					mmr.push(&mu.header);
					let mut c = blocks[hgt + 1].header.clone();
					c.prev_hash = mu.header.hash();
					c.prev_root = mmr.root();
					if remine(&mut c, mu.header.pow.total_difficulty.to_num(), &mut prng) {
						batch.push(c.clone());
						child = Some(c);
					}
				} else if mu.same_hash || prng.bool() {
					batch.push(blocks[hgt + 1].header.clone());
				}
			}
			let pos = format!("{}of{}", k, batch.len());
			let o = deliver_batch(&r_batch, &batch);
			if cx.judge_invalid(Entry::SyncBatch, Some(&r_batch), mu, &honest, "batch", &o) {
				polluted.push(Entry::SyncBatch);
			}
			run.count(&format!("partA_batch_position_{}", pos), 1);
			if let Some(c) = child {
				run.count("partA_batch_bad_root_followed_by_perfect_child", 1);
				if accepted_trace(&r_batch, &c).is_some() {
					run.violation(
						&format!("partA;entry={};era=v{};field=prev_root;kind={};event=child_of_rejected_header_stored", Entry::SyncBatch.name(), ver, mu.kind),
						"the child of a header with a wrong prev_root is in the chain",
						json!({"part":"A","chain_idx":ci,"height":hgt,"child":format!("{:?}", c)}),
					);
				}
			}

			// untrusted reader: judged for what a context-free reader can know
			let reader_judged = (matches!(mu.field, "version" | "edge_bits" | "nonce" | "proof")
				|| mu.kind.ends_with("_unmined"))
				&& mu.kind != "valid_cycle_below_target";
			if reader_judged {
				let o = read_untrusted(&mu.header);
				cx.judge_invalid(Entry::Reader, None, mu, &honest, "wire", &o);
			}
		}

		// -- 2. far-future timestamps through the untrusted reader
		if hgt % 5 == 2 {
			for (kind, off, must_reject) in [("now_plus_ftl_plus2", 2i64, true), ("now_plus_ftl_minus2", -2, false)] {
				let t0 = Instant::now();
				let now = chrono::Utc::now().timestamp();
				let mut m = honest.clone();
				m.timestamp = chrono::DateTime::<chrono::Utc>::from_timestamp(now + ftl + off, 0).unwrap();
				m.pow.nonce = prng.next_u64();
				if !mine_capped(&mut m, 1, MINE_TRIES) {
					tally.lock().unwrap().mine_failed += 1;
					continue;
				}
				let o = read_untrusted(&m);
				if t0.elapsed() > StdDuration::from_millis(900) {
					tally.lock().unwrap().ftl_timing_skipped += 1;
					continue;
				}
				tally.lock().unwrap().ftl_judged += 1;
				let mu = Mutant {
					field: "timestamp",
					kind: kind.to_string(),
					header: m.clone(),
					label: if must_reject { Label::Invalid } else { Label::Valid },
					expect: E_NONE,
					same_hash: false,
				};
				if must_reject {
					cx.judge_invalid(Entry::Reader, None, &mu, &honest, "wire", &o);
				} else {
					cx.judge_valid(Entry::Reader, None, &m, "timestamp", kind, false, &o);
				}
			}
		}

		// -- 3. the honest header through every entry point
		let o = read_untrusted(&honest);
		cx.judge_valid(Entry::Reader, None, &honest, "none", "honest", true, &o);
		let mut all_ok = true;
		for (entry, chain) in [(Entry::Pbh, &r_pbh), (Entry::Sync1, &r_sync), (Entry::Pb, &r_pb)] {
			let o = deliver(chain, entry, &honest, &honest_block);
			let ok = cx.judge_valid(entry, Some(chain), &honest, "none", "honest", true, &o);
			// the honest header must now be the tip the receiver works on
			let head_ok = chain
				.header_head()
				.map(|t| t.last_block_h == honest.hash())
				.unwrap_or(false);
			if ok && !head_ok && !polluted.contains(&entry) {
				run.violation(
					&format!("partA;entry={};era=v{};field=none;kind=honest;event=not_header_head", entry.name(), ver),
					"honest header accepted but header_head did not advance to it",
					json!({"part":"A","chain_idx":ci,"height":hgt}),
				);
			}
			all_ok &= ok;
		}
		if hgt % 4 == 0 || hgt == n_blocks as usize {
			let batch: Vec<BlockHeader> =
				blocks[batch_have + 1..=hgt].iter().map(|b| b.header.clone()).collect();
			let o = deliver_batch(&r_batch, &batch);
			let ok = cx.judge_valid(Entry::SyncBatch, Some(&r_batch), &honest, "none", "honest_batch", true, &o);
			if ok {
				run.count("partA_honest_batch_headers_accepted", batch.len() as u64);
			}
			all_ok &= ok;
			batch_have = hgt;
		}
		if !all_ok {
			// the receivers no longer have the ancestors: the rest would be vacuous
			run.count("partA_chain_aborted_after_honest_rejection", 1);
			break;
		}

		// -- 4. rule-abiding mutants (same work: they become stored siblings)
		for mu in muts.iter().filter(|m| m.label == Label::Valid) {
			for (entry, chain) in [(Entry::Pbh, &r_pbh), (Entry::Sync1, &r_sync), (Entry::Pb, &r_pb)] {
				let o = deliver(chain, entry, &mu.header, &honest_block);
				cx.judge_valid(entry, Some(chain), &mu.header, mu.field, &mu.kind, false, &o);
			}
		}

		// -- 4b. the invalid mutants again, now as fork candidates next to the accepted honest header
		for mu in muts.iter().filter(|m| m.label == Label::Invalid && !m.same_hash) {
			for (entry, chain) in [(Entry::Pbh, &r_pbh), (Entry::Sync1, &r_sync), (Entry::Pb, &r_pb)] {
				let o = deliver(chain, entry, &mu.header, &honest_block);
				cx.judge_invalid(entry, Some(chain), mu, &honest, "fork_sibling", &o);
			}
		}

		// -- 5. mutants sharing the hash of the now-known honest header must not replace it
		for mu in muts.iter().filter(|m| m.label == Label::Invalid && m.same_hash) {
			for (entry, chain) in [(Entry::Pbh, &r_pbh), (Entry::Sync1, &r_sync)] {
				let o = deliver(chain, entry, &mu.header, &honest_block);
				let outcome_s = match &o {
					Outcome::Ok => "ok_already_known".to_string(),
					Outcome::Err(v) => format!("rejected:{}", v),
					Outcome::Panic(l) => format!("panic@{}", l),
				};
				run.eval(
					&format!("A;post_known;entry={};era=v{};field={};kind={};outcome={}", entry.name(), ver, mu.field, mu.kind, outcome_s),
					true,
				);
				tally.lock().unwrap().post_known_checks += 1;
				let stored_is_honest = chain
					.get_block_header(&honest.hash())
					.map(|x| x == honest)
					.unwrap_or(false);
				if !stored_is_honest || matches!(o, Outcome::Panic(_)) {
					run.violation(
						&format!("partA;entry={};era=v{};field={};kind={};event=replaced_known_header", entry.name(), ver, mu.field, mu.kind),
						"a mutated header with the hash of a known header replaced the stored header (or panicked)",
						json!({"part":"A","chain_idx":ci,"height":hgt,"field":mu.field,"kind":mu.kind,"outcome":outcome_s}),
					);
				}
				// ... and as a FULL block on this receiver, which knows the honest header only header-first: the block's own
				// header breaks a rule (its proof of work belongs to other contents), the body is the honest one
				let ob = deliver(chain, Entry::Pb, &mu.header, &honest_block);
				let outcome_b = match &ob {
					Outcome::Ok => "accepted".to_string(),
					Outcome::Err(v) => format!("rejected:{}", v),
					Outcome::Panic(l) => format!("panic@{}", l),
				};
				run.eval(
					&format!("A;post_known_as_block;known_through={};era=v{};field={};kind={};outcome={}", entry.name(), ver, mu.field, mu.kind, outcome_b),
					true,
				);
				run.count("partA_same_hash_mutants_delivered_as_full_blocks_after_header_first", 1);
				let body_head_is_it = chain.head().map(|t| t.last_block_h == honest.hash()).unwrap_or(false);
				if !matches!(ob, Outcome::Err(_)) || body_head_is_it {
					run.violation(
						&format!("partA;entry=process_block_after_{};era=v{};field={};kind={};event=block_with_invalid_header_accepted", entry.name(), ver, mu.field, mu.kind),
						&format!("a full block whose header breaks a rule but shares the hash of a header known header-first: {} (body head on it: {})", outcome_b, body_head_is_it),
						json!({"part":"A","chain_idx":ci,"height":hgt,"field":mu.field,"kind":mu.kind,"outcome":outcome_b}),
					);
				}
			}
		}
	}
}

const FIELDS: [&str; 12] = [
	"height", "timestamp", "version", "prev_hash", "prev_root", "total_difficulty",
	"secondary_scaling", "nonce", "edge_bits", "proof", "output_mmr_size", "kernel_mmr_size",
];

fn rejected_key(field: &str, entry: &str) -> String {
	format!("partA_rejected[{} @ {}]", field, entry)
}

/// Chains `shard, shard+n, ..` of part A, run sequentially in this process;
/// the tallies are published as counters (merged by the parent).
fn part_a_shard(run: &Run, shard: usize, n_shards: usize, san: bool) {
	let (n_chains, stride, budget_s): (usize, usize, u64) = if san {
		(1, 6, 120)
	} else {
		run.tier.pick((16, 1, 45), (320, 1, 300))
	};
	let tally = Mutex::new(ATally::default());
	let sc = Scratch::new("c04");
	let deadline = Instant::now() + StdDuration::from_secs(budget_s);
	let mut ci = shard;
	while ci < n_chains {
		if Instant::now() > deadline {
			run.count("partA_chains_skipped_deadline", 1);
			ci += n_shards;
			continue;
		}
		// 16..20 blocks: versions 1..4 (DMA) at heights 1..11, version 5 (WTEMA) from 12
		let n_blocks = if san { 13 } else { 16 + (ci as u64 % 5) };
		let r = monitor::catch(|| part_a_chain(run, &tally, &sc, ci, n_blocks, stride, deadline));
		if let Err(p) = r {
			run.inconclusive(&format!("part A chain {} harness panic: {} @ {}", ci, p.message, p.location));
		}
		run.count("partA_chains", 1);
		ci += n_shards;
	}
	drop(sc);
	let t = tally.lock().unwrap();
	run.count("partA_deliveries", t.deliveries);
	run.count("partA_rejected_for_the_targeted_rule", t.expected_reason);
	run.count("partA_rejected_for_another_reason", t.other_reason.values().sum());
	run.count("partA_mutants_not_minable_skipped", t.mine_failed);
	run.count("partA_pow_mutants_dropped_because_still_a_valid_cycle", t.accidentally_valid_pow);
	run.count("partA_honest_difficulty_equals_reference", t.ref_difficulty_ok);
	run.count("partA_ftl_cases_judged", t.ftl_judged);
	run.count("partA_ftl_cases_skipped_timing", t.ftl_timing_skipped);
	run.count("partA_same_hash_mutant_vs_known_header_checks", t.post_known_checks);
	run.count("partA_valid_cycle_below_target_rejected", t.weak_proof_rejected);
	for (e, n) in &t.honest_ok {
		run.count(&format!("partA_honest_accepted[{}]", e), *n);
	}
	for (e, n) in &t.valid_mutant_ok {
		run.count(&format!("partA_valid_mutant_accepted[{}]", e), *n);
	}
	for (v, n) in &t.eras_seen {
		run.count(&format!("partA_heights_in_era_v{}", v), *n);
	}
	for ((f, e), n) in &t.rejected {
		run.count(&rejected_key(f, e), *n);
	}
	for (k, n) in &t.other_reason {
		run.count(&format!("partA_rejected_for_another_reason[{}]", k), *n);
	}
	for (d, n) in &t.difficulties_seen {
		run.count(&format!("partA_network_difficulty_seen[{:04}]", d), *n);
	}
}

// =====================================================================
// Part B
// =====================================================================

const NETS: [Net; 4] = [Net::Auto, Net::User, Net::Test, Net::Main];

fn chain_type(n: Net) -> ChainTypes {
	match n {
		Net::Auto => ChainTypes::AutomatedTesting,
		Net::User => ChainTypes::UserTesting,
		Net::Test => ChainTypes::Testnet,
		Net::Main => ChainTypes::Mainnet,
	}
}

fn heights_for(n: Net) -> Vec<u64> {
	match n {
		Net::Auto | Net::User => vec![1, 2, 3, 4, 5, 6, 7, 8, 9, 10, 11, 12, 13, 14, 15, 61, 100, 10_000, 190_000],
		Net::Test => {
			let mut v = vec![1, 2, 59, 60, 61, 62, 100_000, 1_000_000, 5_000_000];
			for f in [185_040u64, 298_080, 552_960, 642_240] {
				v.extend_from_slice(&[f - 1, f, f + 1]);
			}
			v
		}
		Net::Main => {
			let mut v = vec![1, 2, 59, 60, 61, 62, 11_647, 11_648, 100_000, 524_160, 2_000_000, 50_000_000];
			for k in 1..=4u64 {
				let f = k * 262_080;
				v.extend_from_slice(&[f - 1, f, f + 1]);
			}
			v
		}
	}
}

struct GenWin {
	w: Vec<E>,
	len_c: &'static str,
	ts_c: &'static str,
	diff_c: &'static str,
	sec_c: &'static str,
}

fn gen_window(p: &mut Prng, net: Net, dma: bool) -> GenWin {
	// ---- length
	let (len, len_c): (usize, &'static str) = match p.below(20) {
		0 => (0, "len0"),
		1 => (1, "len1"),
		2 => (2, "len2"),
		3 => (3, "len3"),
		4 => (p.range(4, 58) as usize, "len4..58"),
		5 => (59, "len59"),
		6 | 7 => (60, "len60"),
		8..=12 => (61, "len61_exact"),
		13 | 14 => (62, "len62"),
		15 => (120, "len120"),
		_ => {
			if dma {
				(61, "len61_exact")
			} else {
				(p.range(2, 5) as usize, "len2..5")
			}
		}
	};
	if len == 0 {
		return GenWin { w: vec![], len_c, ts_c: "-", diff_c: "-", sec_c: "-" };
	}

	// ---- timestamps, oldest -> newest
	let mut ts: Vec<u64> = Vec::with_capacity(len);
	let ts_class = p.below(14);
	let ts_c: &'static str;
	let start: u64 = match p.below(4) {
		0 => p.range(0, 5000),               // so that padding saturates at 0
		1 => 1u64 << p.range(33, 61),        // far future
		_ => 1_500_000_000 + p.below(1 << 28),
	};
	match ts_class {
		0 | 1 => {
			ts_c = "regular60";
			for i in 0..len as u64 {
				ts.push(start + 60 * i);
			}
		}
		2 => {
			ts_c = "all_equal";
			for _ in 0..len {
				ts.push(start);
			}
		}
		3 | 4 => {
			ts_c = "random_1..300";
			let mut t = start;
			for _ in 0..len {
				ts.push(t);
				t += p.range(1, 300);
			}
		}
		5 => {
			ts_c = "delta1";
			for i in 0..len as u64 {
				ts.push(start + i);
			}
		}
		6 => {
			ts_c = "huge_gaps";
			let mut t = start.min(1 << 40);
			for _ in 0..len {
				ts.push(t);
				t = t.saturating_add(1u64 << p.range(10, 55)).min(1 << 62);
			}
		}
		7 => {
			ts_c = "one_huge_gap_at_end";
			let mut t = start.min(1 << 40);
			for i in 0..len {
				ts.push(t);
				t += if i + 2 == len { 1u64 << p.range(20, 61) } else { p.range(1, 120) };
			}
		}
		8 => {
			ts_c = "decreasing";
			let mut t = start.max(1 << 20);
			for _ in 0..len {
				ts.push(t);
				t = t.saturating_sub(p.range(1, 300));
			}
		}
		9 => {
			ts_c = "jitter_non_monotone";
			let mut t = start + 100_000;
			for _ in 0..len {
				ts.push(t);
				if p.bool() {
					t += p.range(0, 400);
				} else {
					t -= p.range(0, 200);
				}
			}
		}
		10 => {
			// last block time around the interesting points of the WTEMA quotient
			ts_c = "last_gap_special";
			let mut t = start.min(1 << 40) + 100_000;
			for i in 0..len {
				ts.push(t);
				t += if i + 2 == len {
					*p.pick(&[0u64, 1, 2, 59, 60, 61, 119, 120, 14_339, 14_340, 14_341, 86_400, 1 << 32, 1 << 50])
				} else {
					60
				};
			}
		}
		11 => {
			// newest is 14340 s BEFORE its parent (not a header chain): quotient hits 0
			ts_c = "last_gap_minus_14340";
			let mut t = start + 1_000_000;
			for i in 0..len {
				ts.push(t);
				if i + 2 == len {
					t -= 14_340;
				} else {
					t += 60;
				}
			}
		}
		12 => {
			ts_c = "fast_then_slow";
			let mut t = start;
			for i in 0..len {
				ts.push(t);
				t += if i < len / 2 { 1 } else { p.range(300, 5000) };
			}
		}
		_ => {
			ts_c = "max_span_7200_boundary";
			// window span right at the clamp boundaries
			let span = *p.pick(&[0u64, 1, 1799, 1800, 1801, 3599, 3600, 3601, 14_399, 14_400, 14_401, 50_000]);
			for i in 0..len as u64 {
				ts.push(start + span * i / (len as u64).max(2).saturating_sub(1).max(1));
			}
		}
	}

	// ---- difficulties
	let minw = refdiff::min_wtema(net) as u64;
	let used = len.min(61) as u64;
	let mut diffs: Vec<u64> = Vec::with_capacity(len);
	let diff_c: &'static str;
	match p.below(16) {
		0 => {
			diff_c = "all_one";
			diffs.resize(len, 1);
		}
		1 | 2 => {
			diff_c = "all_era_min";
			diffs.resize(len, if dma { 3 } else { minw });
		}
		3 | 4 | 5 => {
			diff_c = "random_1..1e9";
			for _ in 0..len {
				diffs.push(p.range(1, 1_000_000_000));
			}
		}
		6 | 7 => {
			diff_c = "log_uniform_to_2p50";
			for _ in 0..len {
				let b = p.range(1, 50);
				diffs.push(p.range(1, 1u64 << b));
			}
		}
		8 => {
			diff_c = "realistic_mainnet_1e9_drift";
			let mut d = p.range(500_000_000, 4_000_000_000);
			for _ in 0..len {
				diffs.push(d);
				d = d * p.range(990, 1010) / 1000;
			}
		}
		9 => {
			// window sum just BELOW the 64-bit limit of diff_sum * 60
			diff_c = "sum_just_below_2p64_over_60";
			let per = (u64::MAX / 60) / 60;
			for _ in 0..len {
				diffs.push(per - p.range(1, per / 4));
			}
		}
		10 => {
			// window sum ABOVE 2^64/60 but (real sum) below 2^64
			diff_c = "sum_above_2p64_over_60";
			let per = (u64::MAX / 60) / 60;
			for _ in 0..len {
				diffs.push(per + p.range(per / 100, per * 20));
			}
		}
		11 => {
			diff_c = "sum_just_below_2p64";
			let per = u64::MAX / (len as u64).max(used);
			for _ in 0..len {
				diffs.push(per - p.range(0, per / 1000));
			}
		}
		12 => {
			diff_c = "sum_exceeds_2p64";
			for _ in 0..len {
				diffs.push(u64::MAX - p.below(1 << 40));
			}
		}
		13 => {
			diff_c = "one_spike";
			let spike = p.usize_below(len);
			for i in 0..len {
				diffs.push(if i == spike { 1u64 << p.range(20, 57) } else { p.range(1, 1000) });
			}
		}
		14 => {
			// newest difficulty around the 64-bit limit of last_diff * 14400
			diff_c = "newest_near_2p64_over_14400";
			let lim = u64::MAX / 14_400;
			for _ in 0..len {
				diffs.push(p.range(1, 1_000_000));
			}
			let newest = match p.below(4) {
				0 => lim - p.below(1000),
				1 => lim + 1 + p.below(1000),
				2 => lim / 2 + p.below(lim / 2),
				_ => lim + p.range(1, lim * 100),
			};
			let l = diffs.len();
			diffs[l - 1] = newest;
		}
		_ => {
			diff_c = "ramp_doubling";
			let mut d = p.range(1, 1000);
			for _ in 0..len {
				diffs.push(d);
				d = d.saturating_mul(2).min(1 << 50);
			}
		}
	}

	// ---- secondary flags and scaling
	let sec_class = p.below(5);
	let scal_class = p.below(7);
	let init_scal: u32 = match net {
		Net::Auto => 20,
		Net::User => 30,
		_ => 1856,
	};
	let sec_c: &'static str = match (sec_class, scal_class) {
		(0, 0) => "sec_all/scal_min13",
		(0, _) => "sec_all/scal_other",
		(1, 3) => "sec_none/scal_u32max",
		(1, _) => "sec_none/scal_other",
		(2, _) => "sec_alternating",
		(3, _) => "sec_random",
		(_, 4) => "sec_90pct/scal_zero",
		_ => "sec_90pct",
	};
	let mut w: Vec<E> = Vec::with_capacity(len);
	for i in 0..len {
		let sec = match sec_class {
			0 => true,
			1 => false,
			2 => i % 2 == 0,
			3 => p.bool(),
			_ => p.below(10) < 9,
		};
		let scal = match scal_class {
			0 => 13,
			1 => init_scal,
			2 => p.next_u32(),
			3 => u32::MAX,
			4 => 0,
			5 => init_scal.saturating_add(p.below(200) as u32).saturating_sub(100),
			_ => 1u32 << p.below(32),
		};
		w.push(E { ts: ts[i], diff: diffs[i], scal, sec });
	}
	w.reverse(); // newest first
	GenWin { w, len_c, ts_c, diff_c, sec_c }
}

#[derive(Default)]
struct BStats {
	cases: u64,
	sigs: HashMap<String, u64>,
	judged: BTreeMap<(Net, bool), u64>,
	counters: BTreeMap<String, u64>,
	violations: BTreeMap<String, (String, Value)>,
	violation_hits: BTreeMap<String, u64>,
	ood_panics: BTreeMap<String, (u64, Value)>,
	samples: Vec<Value>,
}

impl BStats {
	fn c(&mut self, k: &str) {
		*self.counters.entry(k.to_string()).or_insert(0) += 1;
	}
	/// keep the first case per signature (cases are built lazily)
	fn violation(&mut self, sig: String, what: String, replay: impl FnOnce() -> Value) {
		*self.violation_hits.entry(sig.clone()).or_insert(0) += 1;
		if !self.violations.contains_key(&sig) {
			self.violations.insert(sig, (what, replay()));
		}
	}
}

fn eval_window(net: Net, height: u64, g: &GenWin, st: &mut BStats) {
	let w = &g.w;
	let dma = refdiff::version(net, height) < 5;
	let info = to_info(w);
	let i2 = info.clone();
	let r1 = monitor::catch(move || consensus::next_difficulty(height, info));
	let r2 = monitor::catch(move || consensus::next_difficulty(height, i2));
	let reference = refdiff::next(net, height, w);
	let replay = |extra: Value| {
		json!({"part":"B","chain_type":net.name(),"height":height,"algo": if dma {"DMA"} else {"WTEMA"},
			"window_newest_first_[ts,diff,scaling,is_secondary]": window_json(w), "detail": extra})
	};
	let algo = if dma { "DMA" } else { "WTEMA" };
	let outcome: String;

	// determinism is judged wherever both calls return
	if let (Ok(a), Ok(b)) = (&r1, &r2) {
		if a != b {
			st.violation(
				format!("partB;algo={};clause=nondeterministic", algo),
				"two calls of next_difficulty on the same window differ".into(),
				|| replay(json!({"first": format!("{:?}", a), "second": format!("{:?}", b)})),
			);
		}
	}

	match reference {
		Ref::Undefined(reason) => {
			// outside the definition (not a window of headers): observe only
			match &r1 {
				Ok(_) => {
					outcome = format!("undefined({})/returned", reason);
					st.c(&format!("B_out_of_domain_returned:{}", reason));
				}
				Err(p) => {
					outcome = format!("undefined({})/panic", reason);
					let key = format!("{}:{}@{}", algo, reason, p.location);
					let e = st
						.ood_panics
						.entry(key)
						.or_insert_with(|| (0, replay(json!({"panic": p.message.clone()}))));
					e.0 += 1;
				}
			}
		}
		Ref::Defined(ex) => {
			let real_fits = ex.real_sum <= u64::MAX as u128;
			let result_fits = ex.diff <= u64::MAX as u128;
			let ts_ok = w.iter().all(|e| e.ts <= i64::MAX as u64);
			if !(real_fits && result_fits && ts_ok) {
				// cannot be the difficulties/timestamps of a header chain (cumulative
				// difficulty and timestamps are 64-bit): observe only
				match &r1 {
					Ok(_) => st.c("B_unjudged_sum_or_result_exceeds_u64:returned"),
					Err(p) => {
						let key = format!("{}:sum_exceeds_u64@{}", algo, p.location);
						let e = st.ood_panics.entry(key).or_insert_with(|| (0, replay(json!({"panic": p.message.clone()}))));
						e.0 += 1;
					}
				}
				outcome = "unjudged(wide_sum)".into();
			} else {
				*st.judged.entry((net, dma)).or_insert(0) += 1;
				let mut failed: Vec<String> = vec![];
				let mut detail = json!({});
				match &r1 {
					Err(p) => {
						failed.push(format!("panic@{}", p.location));
						detail = json!({"panic": p.message});
					}
					Ok(r) => {
						let d = r.difficulty.to_num() as u128;
						if d < ex.min {
							failed.push("below_minimum".into());
						}
						if d < ex.lo || d > ex.hi {
							failed.push("outside_damp_clamp_bounds".into());
						}
						if d != ex.diff {
							failed.push("differs_from_reference".into());
						}
						if dma {
							if ex.scaling <= u32::MAX as u128 {
								if r.secondary_scaling as u128 != ex.scaling {
									failed.push("scaling_differs_from_reference".into());
								}
								if (r.secondary_scaling as u128) < refdiff::MIN_AR {
									failed.push("scaling_below_minimum".into());
								}
							} else {
								st.c("B_scaling_exceeds_u32_unjudged");
							}
						} else if r.secondary_scaling != 0 {
							failed.push("scaling_nonzero_after_last_fork".into());
						}
						if !failed.is_empty() {
							detail = json!({
								"shipped_difficulty": r.difficulty.to_num().to_string(),
								"shipped_scaling": r.secondary_scaling,
								"reference_difficulty": ex.diff.to_string(),
								"reference_scaling": ex.scaling.to_string(),
								"bound_lo": ex.lo.to_string(), "bound_hi": ex.hi.to_string(),
								"minimum": ex.min.to_string(),
								"failed_clauses": failed.clone(),
							});
						}
					}
				}
				if failed.is_empty() {
					outcome = if ex.overflow.is_some() { "ok(despite_wide_product)".into() } else { "ok".into() };
					if st.samples.len() < 2 && w.len() <= 3 && w.len() >= 2 {
						st.samples.push(json!({"part":"B","chain_type":net.name(),"height":height,"algo":algo,
							"window_newest_first":window_json(w),"expected_difficulty":ex.diff.to_string(),"result":"equal"}));
					}
				} else {
					outcome = format!("FAILED:{}", failed[0]);
					let (sig, what) = match ex.overflow {
						Some(cause) => (
							format!("partB;algo={};cause={}", algo, cause),
							format!(
								"64-bit product wraps for a window whose difficulties fit a header chain; result violates: {}",
								failed.join(",")
							),
						),
						None => (
							format!("partB;algo={};clause={}", algo, failed[0]),
							format!("next_difficulty violates: {}", failed.join(",")),
						),
					};
					st.violation(sig, what, || replay(detail));
				}
			}
		}
	}
	*st
		.sigs
		.entry(format!(
			"B;{};{};{};{};{};{};{}",
			net.name(),
			algo,
			g.len_c,
			g.ts_c,
			g.diff_c,
			g.sec_c,
			outcome
		))
		.or_insert(0) += 1;
	st.cases += 1;
}

fn part_b_worker(seed: u64, tid: u64, threads: u64, total: u64, deadline: Instant) -> BStats {
	let mut st = BStats::default();
	let mut cur: Option<Net> = None;
	let hs: Vec<Vec<u64>> = NETS.iter().map(|n| heights_for(*n)).collect();
	let mut i = tid;
	let mut n = 0u64;
	while i < total {
		if n % 512 == 0 && Instant::now() > deadline {
			st.c("B_stopped_at_deadline");
			break;
		}
		n += 1;
		let mut p = Prng::new(seed ^ 0xB0B0_C04B ^ i.wrapping_mul(0xD6E8_FEB8_6659_FD93));
		let ni = (i % 4) as usize;
		let net = NETS[ni];
		if cur != Some(net) {
			global::set_local_chain_type(chain_type(net));
			cur = Some(net);
		}
		let list = &hs[ni];
		// cycle deterministically through the listed heights, sometimes a random one
		let height = if p.below(8) == 0 {
			match net {
				Net::Auto | Net::User => p.range(1, 30),
				_ => p.range(1, 3_000_000),
			}
		} else {
			list[((i / 4) % list.len() as u64) as usize]
		};
		let dma = refdiff::version(net, height) < 5;
		let g = gen_window(&mut p, net, dma);
		eval_window(net, height, &g, &mut st);
		i += threads;
	}
	st
}

/// Small hand-written windows evaluated first (so that a finding is recorded
/// with a minimal reproducer): perfectly regular windows at the boundaries of
/// the 64-bit products of the shipped formulas.
fn part_b_canonical() -> BStats {
	let mut st = BStats::default();
	let mk = |n: usize, newest_ts: u64, step: u64, diff: u64, scal: u32| -> Vec<E> {
		(0..n as u64)
			.map(|i| E { ts: newest_ts - i * step, diff, scal, sec: i % 10 != 0 })
			.collect()
	};
	let lim60 = u64::MAX / 60; // largest window sum whose product with 60 fits
	let lim_w = u64::MAX / 14_400;
	let cases: Vec<(Net, u64, Vec<E>, &'static str)> = vec![
		// DMA, 61 regular entries: sum = 60 * d
		(Net::Main, 100, mk(61, 1_600_000_000, 60, lim60 / 60, 1856), "dma_sum_at_limit"),
		(Net::Main, 100, mk(61, 1_600_000_000, 60, lim60 / 60 + 1, 1856), "dma_sum_just_over_limit"),
		(Net::Main, 100, mk(61, 1_600_000_000, 60, 6_000_000_000_000_000, 1856), "dma_sum_3.6e17"),
		(Net::Auto, 5, mk(61, 1_600_000_000, 60, 6_000_000_000_000_000, 20), "dma_sum_3.6e17"),
		// WTEMA, two entries one target spacing apart
		(Net::Main, 2_000_000, mk(2, 1_700_000_000, 60, lim_w, 0), "wtema_last_at_limit"),
		(Net::Main, 2_000_000, mk(2, 1_700_000_000, 60, lim_w + 1, 0), "wtema_last_just_over_limit"),
		(Net::Main, 2_000_000, mk(2, 1_700_000_000, 60, 2_000_000_000_000_000, 0), "wtema_last_2e15"),
		(Net::Auto, 13, mk(2, 1_700_000_000, 60, 2_000_000_000_000_000, 0), "wtema_last_2e15"),
		// plain sanity
		(Net::Main, 2_000_000, mk(2, 1_700_000_000, 60, 1_500_000_000, 0), "wtema_typical"),
		(Net::Main, 100, mk(61, 1_600_000_000, 60, 1_500_000_000, 1856), "dma_typical"),
	];
	for (net, height, w, name) in cases {
		global::set_local_chain_type(chain_type(net));
		let g = GenWin { w, len_c: "canonical", ts_c: "regular60", diff_c: name, sec_c: "sec_90pct" };
		eval_window(net, height, &g, &mut st);
	}
	global::set_local_chain_type(ChainTypes::AutomatedTesting);
	st
}

/// Cross-check the constants of the reference against the shipped accessors
/// (a disagreement is a harness problem to look at, reported as inconclusive).
fn check_reference_constants(run: &Run) {
	for net in NETS {
		global::set_local_chain_type(chain_type(net));
		let shipped = Difficulty::min_wtema().to_num() as u128;
		if shipped != refdiff::min_wtema(net) {
			run.inconclusive(&format!(
				"reference min_wtema({}) = {} but shipped = {}",
				net.name(),
				refdiff::min_wtema(net),
				shipped
			));
		}
		if Difficulty::min_dma().to_num() as u128 != refdiff::MIN_DMA {
			run.inconclusive("reference MIN_DMA differs from shipped");
		}
		// version schedule on the listed heights
		for h in heights_for(net) {
			let s = consensus::header_version(h).0 as u64;
			if s != refdiff::version(net, h) {
				run.violation(
					&format!("partB;schedule;chain={};event=version_differs_from_reference", net.name()),
					&format!("header_version({}) = {} but the schedule of the definition gives {}", h, s, refdiff::version(net, h)),
					json!({"chain_type": net.name(), "height": h}),
				);
			}
			run.eval(&format!("B;schedule;{};v{}", net.name(), s), true);
		}
	}
	// observation only: the `as u16` cast in header_version wraps at large heights
	global::set_local_chain_type(ChainTypes::AutomatedTesting);
	let wrap_h = 3 * 65_535u64;
	run.extra(
		"note_header_version_u16_wrap",
		json!({"chain_type":"AutomatedTesting","height":wrap_h,"shipped_header_version":consensus::header_version(wrap_h).0,
			"comment":"observation, not judged: (1 + height/interval) as u16 wraps; heights this large are not used by the check"}),
	);
}

// =====================================================================
// main
// =====================================================================

// ------------------------------------------------------------------ Part C: production parameters behind a permissive cycle verifier

/// Cycle verifier that takes any cycle: Cuckaroo29 / Cuckatoo31+ cycles cannot be searched for here. `Chain::init` takes
/// the verifier as a parameter; every other header rule runs for real under `Options::NONE` on Testnet / Mainnet
/// parameters - height, version, time, the difficulty the proof hash reaches, total difficulty, secondary scaling, the
/// header MMR root - and the window the node judges by is the one it reads back from its own header store.
fn any_cycle(_: &BlockHeader) -> Result<(), pow::Error> {
	Ok(())
}

/// A header on `prev` claiming (difficulty, scaling) with a proof of `edge_bits` whose hash reaches that difficulty.
fn part_c_header(chain: &Chain, prev: &BlockHeader, ts_delta: i64, diff: u64, scaling: u32, edge_bits: u8, salt: u64, reuse: Option<&pow::Proof>) -> Option<BlockHeader> {
	use grin_core::core::pmmr::insertion_to_pmmr_index;
	let height = prev.height + 1;
	let mut header = BlockHeader::default();
	header.version = consensus::header_version(height);
	header.height = height;
	header.timestamp = prev.timestamp + Duration::seconds(ts_delta);
	header.prev_hash = prev.hash();
	header.output_mmr_size = insertion_to_pmmr_index(prev.output_mmr_count() + 1);
	header.kernel_mmr_size = insertion_to_pmmr_index(prev.kernel_mmr_count() + 1);
	header.pow.total_difficulty = prev.total_difficulty() + Difficulty::from_num(diff);
	header.pow.secondary_scaling = scaling;
	if chain.set_prev_root_only(&mut header).is_err() {
		return None;
	}
	if let Some(pr) = reuse {
		// the proof of work (and with it the header's hash) covers the nonces only
		header.pow.proof = pr.clone();
		return if header.pow.to_difficulty(height).to_num() >= diff { Some(header) } else { None };
	}
	let n = global::proofsize() as u64;
	// nonce sets of different (height, salt) must not coincide (the header hash covers the nonces only, and a header whose
	// hash is already stored is answered as known): 42 fixed pseudo-random values per (height, salt), shifted by the try
	// counter, each kept inside the graph's edge range (a nonce beyond it cannot be encoded, hence cannot arrive)
	let mask: u64 = if edge_bits >= 63 { u64::MAX >> 1 } else { (1u64 << edge_bits) - 1 };
	let mut seedp = Prng::new(0xC04C_0000 ^ (height << 8) ^ salt);
	let fixed: Vec<u64> = (0..n).map(|_| seedp.next_u64()).collect();
	for k in 0..40_000_000u64 {
		header.pow.proof = pow::Proof {
			edge_bits,
			nonces: fixed.iter().map(|x| x.wrapping_add(k) & mask).collect(),
		};
		if header.pow.to_difficulty(height).to_num() >= diff {
			return Some(header);
		}
	}
	None
}

fn part_c_chain(run: &Run, net: Net, n_headers: u64, sc: &Scratch, seed: u64) {
	global::set_local_chain_type(chain_type(net));
	let genesis = match net {
		Net::Test => grin_core::genesis::genesis_test(),
		_ => grin_core::genesis::genesis_main(),
	};
	let dir = sc.sub(&format!("partC-{}", net.name()));
	let chain = match Chain::init(dir.clone(), std::sync::Arc::new(grin_chain::types::NoopAdapter {}), genesis.clone(), any_cycle, false, None) {
		Ok(c) => c,
		Err(e) => {
			run.inconclusive(&format!("part C: Chain::init on {}: {:?}", net.name(), e));
			return;
		}
	};
	let mut p = Prng::new(seed ^ 0xC04C ^ (net as u64) << 8);
	let e_of = |h: &BlockHeader, prev_total: u64| E {
		ts: h.timestamp.timestamp() as u64,
		diff: h.total_difficulty().to_num() - prev_total,
		scal: h.pow.secondary_scaling,
		sec: h.pow.is_secondary(),
	};
	let mut window: Vec<E> = vec![e_of(&genesis.header, 0)];
	let mut prev = genesis.header.clone();
	for height in 1..=n_headers {
		let replay = |what: &str, detail: Value| json!({"part": "C", "chain_type": net.name(), "height": height, "what": what,
			"window_newest_first_[ts,diff,scaling,is_secondary]": window_json(&window), "detail": detail});
		let (diff, scaling) = match refdiff::next(net, height, &window) {
			Ref::Defined(ex) if ex.diff <= u64::MAX as u128 && ex.scaling <= u32::MAX as u128 => (ex.diff as u64, ex.scaling as u32),
			_ => {
				run.inconclusive(&format!("part C: reference undefined at height {} on {}", height, net.name()));
				return;
			}
		};
		// what the node itself derives from its header store must be the reference (it is what it judges headers by)
		let from_store = consensus::next_difficulty(height, grin_chain::store::DifficultyIter::from(prev.hash(), chain.store()));
		run.count("partC_store_windows_compared", 1);
		if from_store.difficulty.to_num() != diff || from_store.secondary_scaling != scaling {
			run.violation(
				&format!("partC;chain={};clause=retarget_over_the_stored_window;era=v{}", net.name(), refdiff::version(net, height)),
				&format!("next_difficulty over the node's stored headers gives ({}, {}), the reference over the headers as accepted ({}, {})",
					from_store.difficulty.to_num(), from_store.secondary_scaling, diff, scaling),
				replay("store_window", json!({})),
			);
			return;
		}
		// Mainnet starts at a difficulty a 31-bit graph weight reaches once in millions of hashes: larger graphs there
		// (the weight grows with the graph), and only every third header secondary
		let edge_bits = match net {
			Net::Test => *p.pick(&[29u8, 29, 31, 32]),
			_ => {
				if height % 3 == 1 {
					29
				} else {
					*p.pick(&[40u8, 48, 63])
				}
			}
		};
		let ts_delta = *p.pick(&[1i64, 30, 60, 60, 61, 600]);
		// the scaling of the same window with every header taken for a primary one
		let all_primary: Vec<E> = window.iter().map(|e| E { sec: false, ..*e }).collect();
		let mut mutants: Vec<(&'static str, u64, u32)> = vec![
			("secondary_scaling_plus_1", diff, scaling + 1),
			("total_difficulty_plus_1", diff + 1, scaling),
		];
		if scaling > 1 {
			mutants.push(("secondary_scaling_minus_1", diff, scaling - 1));
		}
		if diff > 1 {
			mutants.push(("total_difficulty_minus_1", diff - 1, scaling));
		}
		if let Ref::Defined(ex) = refdiff::next(net, height, &all_primary) {
			if ex.scaling as u32 != scaling {
				mutants.push(("scaling_of_the_window_with_all_headers_primary", diff, ex.scaling as u32));
				run.count("partC_windows_whose_scaling_depends_on_the_secondary_flags", 1);
			}
		}
		// one proof for all mutants of this height, mined for the hardest of their claims (highest difficulty, lowest scaling)
		let hardest = part_c_header(&chain, &prev, ts_delta, diff + 1, scaling.saturating_sub(1).max(1), edge_bits, 1, None);
		let shared = match &hardest {
			Some(h) => h.pow.proof.clone(),
			None => {
				run.inconclusive(&format!("part C: no proof hash reaching difficulty {} at height {} on {}", diff + 1, height, net.name()));
				return;
			}
		};
		for (k, (name, d, sc_)) in mutants.into_iter().enumerate() {
			let m = match part_c_header(&chain, &prev, ts_delta, d, sc_, edge_bits, 1, Some(&shared)) {
				Some(m) => m,
				None => {
					run.count("partC_headers_not_mined", 1);
					continue;
				}
			};
			let via_sync = (height + k as u64) % 2 == 0;
			let r: Result<(), grin_chain::Error> = if via_sync {
				let sh: Tip = chain.header_head().expect("header_head");
				chain.sync_block_headers(&[m.clone()], sh, Options::NONE).map(|_| ())
			} else {
				chain.process_block_header(&m, Options::NONE)
			};
			let entry = if via_sync { "sync_block_headers" } else { "process_block_header" };
			run.eval(&format!("partC;{};{};{};eb={};era=v{}", net.name(), name, entry, edge_bits, refdiff::version(net, height)), true);
			let hh = chain.header_head().map(|t| t.last_block_h).ok();
			if r.is_ok() || hh != Some(prev.hash()) {
				run.violation(
					&format!("partC;chain={};field={};entry={};event=accepted", net.name(), name, entry),
					&format!("header at height {} claiming (difficulty {}, secondary scaling {}) where the network values are ({}, {}) was accepted ({:?}), header_head {:?}",
						height, d, sc_, diff, scaling, r.is_ok(), hh),
					replay(name, json!({"edge_bits": edge_bits})),
				);
				return;
			}
			run.count(&format!("partC_rejected[{}]", name), 1);
		}
		let honest = match part_c_header(&chain, &prev, ts_delta, diff, scaling, edge_bits, 9, None) {
			Some(m) => m,
			None => {
				run.inconclusive(&format!("part C: no proof hash reaching difficulty {} at height {} on {}", diff, height, net.name()));
				return;
			}
		};
		let via_sync = height % 3 == 0;
		let r: Result<(), grin_chain::Error> = if via_sync {
			let sh: Tip = chain.header_head().expect("header_head");
			chain.sync_block_headers(&[honest.clone()], sh, Options::NONE).map(|_| ())
		} else {
			chain.process_block_header(&honest, Options::NONE)
		};
		run.eval(&format!("partC;{};honest;eb={};era=v{}", net.name(), edge_bits, refdiff::version(net, height)), true);
		if r.is_err() || chain.header_head().map(|t| t.last_block_h).ok() != Some(honest.hash()) {
			run.violation(
				&format!("partC;chain={};field=none;event=honest_header_refused", net.name()),
				&format!("header at height {} carrying the network difficulty {} and secondary scaling {} (edge bits {}) was refused: {:?}", height, diff, scaling, edge_bits, r.err().map(|e| err_variant(&e))),
				replay("honest", json!({"edge_bits": edge_bits})),
			);
			return;
		}
		run.count("partC_honest_accepted", 1);
		if honest.pow.is_secondary() {
			run.count("partC_honest_accepted_secondary", 1);
		}
		window.insert(0, e_of(&honest, prev.total_difficulty().to_num()));
		prev = honest;
	}
	run.count("partC_chains_completed", 1);
}

fn main() {
	let run = Run::from_env("C04", "exploration");
	let san = run.args.iter().any(|a| a == "--san");
	init_globals(false);
	monitor::install_panic_hook();
	let t_start = Instant::now();
	if let Some((i, n)) = run.worker_shard() {
		part_a_shard(&run, i, n, false);
		run.finish_worker();
	}

	run.set_rule(
		"Part A: honest real-PoW AutomatedTesting chains (Cuckatoo10, versions 1..5, 5 timestamp profiles) built by the reference \
		 ledger; for every height every header field is mutated in one way per case (height, timestamp, version, prev_hash, prev_root, \
		 total_difficulty, secondary_scaling, nonce, edge_bits, proof, output/kernel mmr size), RE-MINED for the claimed difficulty when \
		 the field is in the PoW pre-image so only the targeted rule is violated, and delivered to receivers that know exactly the \
		 ancestors through process_block_header, sync_block_headers (single, and batch with the bad header at position k of n), \
		 process_block, and (for context-free rules and now+FTL±2s) UntrustedBlockHeader::read; then again as fork candidates after the honest \
		 header was accepted (and, for mutants that keep the proof and therefore the hash of the honest header, checking that the stored \
		 header is not replaced). A wrong prev_root inside a batch is followed by a child that is perfect given its parent. Chains are \
		 sharded over 16 worker processes. A case signature is (entry point, header \
		 version era, field, mutation kind, outcome). Labelled-invalid mutants must be rejected and leave no trace; honest headers and \
		 rule-abiding mutants (parent+1s, re-mined sibling, v5 secondary_scaling) must be accepted and stored; the claimed difficulty of \
		 every honest header must equal the independent u128 reference. \
		 Part B: consensus::next_difficulty on 4 chain types x heights in every era and around every fork x windows \
		 (length 0..120, 14 timestamp classes, 16 difficulty classes, secondary flag/scaling classes): no panic, deterministic, >= era \
		 minimum, inside the damp/clamp bounds, equal to the u128 reference — judged on windows whose difficulties and timestamps can \
		 belong to a header chain (non-negative spans, 64-bit cumulative difficulty); other windows are observed only. Signature = \
		 (chain type, algorithm, length class, timestamp class, difficulty class, secondary class, outcome). \
		 Part C: Testnet and Mainnet genesis, Chain::init with a cycle verifier that accepts any cycle, 10 (quick) / 70 (thorough) \
		 headers with edge bits 29 (secondary) / 31 / 32 and varying block times, each carrying the (difficulty, secondary scaling) of the \
		 u128 reference over the accepted headers and a proof whose hash reaches that difficulty: accepted through process_block_header / \
		 sync_block_headers; the same header with scaling +-1, difficulty +-1 or the scaling of the window with all headers taken as primary: \
		 refused; next_difficulty over the node's own header store equals the reference.",
	);
	run.assume("a window handed to next_difficulty by header validation consists of already validated headers: timestamps strictly increase and the difficulties sum to less than 2^64 (total_difficulty is a u64)");
	run.assume("blake2b, siphash and the Cuckatoo verifier/solver are trusted (C05 covers the verifier)");
	run.assume("mainnet/testnet header acceptance is exercised behind a cycle verifier that accepts any cycle (Cuckatoo31+/Cuckaroo29 cannot be mined here; part C): every rule except the cycle itself runs for real; the cycle rule is part A's (AutomatedTesting) and C05's");

	// ------------------------------------------------------------ Part A
	// process_block serialises on the process-global secp mutex, so the chains are
	// sharded over worker PROCESSES (see part_a_shard); sanitizer runs stay in-process.
	if san {
		part_a_shard(&run, 0, 1, true);
	} else {
		run.spawn_workers(16, &[], run.tier.pick(60, 360));
	}
	let a_wall = t_start.elapsed().as_secs_f64();

	// ------------------------------------------------------------ Part C
	if !san {
		let sc_c = Scratch::new("c04c");
		let n_c: u64 = run.tier.pick(66, 90);
		std::thread::scope(|s| {
			for net in [Net::Test, Net::Main] {
				let (run, sc_c) = (&run, &sc_c);
				s.spawn(move || {
					if let Err(pn) = monitor::catch(|| part_c_chain(run, net, n_c, sc_c, run.seed)) {
						run.violation(&format!("partC;chain={};event=panic@{}", net.name(), pn.location), &pn.message, json!({"part": "C"}));
					}
				});
			}
		});
		drop(sc_c);
		run.require("partC chains on production parameters completed", run.counter("partC_chains_completed"), 2);
		run.require("partC honest headers accepted", run.counter("partC_honest_accepted"), 2 * n_c);
		run.require("partC honest secondary (edge bits 29) headers accepted", run.counter("partC_honest_accepted_secondary"), 4);
		run.require("partC mutants whose shared proof did not reach their claim must be 0", if run.counter("partC_headers_not_mined") == 0 { 1 } else { 0 }, 1);
		run.require("partC wrong secondary scaling refused", run.counter("partC_rejected[secondary_scaling_plus_1]"), n_c);
		run.require("partC wrong total difficulty refused", run.counter("partC_rejected[total_difficulty_plus_1]"), n_c);
		run.require("partC windows whose scaling depends on which headers are secondary", run.counter("partC_windows_whose_scaling_depends_on_the_secondary_flags"), 4);
	}

	// ------------------------------------------------------------ Part B
	check_reference_constants(&run);
	let total_b: u64 = if san { 20_000 } else { run.tier.pick(1_600_000, 40_000_000) };
	let threads_b: u64 = if san { 2 } else { 16 };
	let deadline_b = Instant::now() + StdDuration::from_secs(if san { 60 } else { run.tier.pick(20, 180) });
	let seed = run.seed;
	let canonical = part_b_canonical();
	let mut stats: Vec<BStats> = std::thread::scope(|s| {
		let hs: Vec<_> = (0..threads_b)
			.map(|tid| s.spawn(move || part_b_worker(seed, tid, threads_b, total_b, deadline_b)))
			.collect();
		hs.into_iter().map(|h| h.join().expect("part B worker")).collect()
	});
	stats.insert(0, canonical);
	let b_wall = t_start.elapsed().as_secs_f64() - a_wall;

	// ------------------------------------------------------------ evidence
	// (part A tallies arrive as counters merged from the workers)
	let cnt = |name: &str| run.counter(name);
	run.extra("wall_partA_s", json!(a_wall));
	run.extra("wall_partB_s", json!(b_wall));

	// requirements part A
	let entries = [Entry::Pbh, Entry::Sync1, Entry::SyncBatch, Entry::Pb];
	let mut covered = 0u64;
	let mut missing: Vec<String> = vec![];
	for f in FIELDS {
		for e in entries {
			if cnt(&rejected_key(f, e.name())) >= 1 {
				covered += 1;
			} else {
				missing.push(format!("{}@{}", f, e.name()));
			}
		}
	}
	if !missing.is_empty() {
		run.extra("partA_field_entry_pairs_never_rejected", json!(missing));
	}
	run.require("partA (field x entry point) pairs with >=1 rejection", covered, (FIELDS.len() * entries.len()) as u64);
	let reader_fields = ["version", "edge_bits", "nonce", "proof", "timestamp"];
	let rcov = reader_fields
		.iter()
		.filter(|f| cnt(&rejected_key(f, Entry::Reader.name())) >= 1)
		.count() as u64;
	run.require("partA untrusted-reader fields with >=1 rejection", rcov, reader_fields.len() as u64);
	let min_honest = if san { 10 } else { run.tier.pick(100, 1000) };
	for e in [Entry::Pbh, Entry::Sync1, Entry::Pb, Entry::Reader] {
		run.require(
			&format!("partA honest headers accepted via {}", e.name()),
			cnt(&format!("partA_honest_accepted[{}]", e.name())),
			min_honest,
		);
	}
	run.require(
		"partA honest batches accepted via sync_block_headers[k/n]",
		cnt(&format!("partA_honest_accepted[{}]", Entry::SyncBatch.name())),
		if san { 2 } else { run.tier.pick(25, 250) },
	);
	for e in [Entry::Pbh, Entry::Sync1, Entry::Pb] {
		run.require(
			&format!("partA rule-abiding mutants accepted via {}", e.name()),
			cnt(&format!("partA_valid_mutant_accepted[{}]", e.name())),
			if san { 3 } else { 30 },
		);
	}
	for v in 1..=5u16 {
		run.require(
			&format!("partA heights exercised in header-version era v{}", v),
			cnt(&format!("partA_heights_in_era_v{}", v)),
			1,
		);
	}
	run.require(
		"partA honest headers whose difficulty equals the reference",
		cnt("partA_honest_difficulty_equals_reference"),
		min_honest,
	);
	let distinct_difficulties = (1..=4096u64)
		.filter(|d| cnt(&format!("partA_network_difficulty_seen[{:04}]", d)) > 0)
		.count() as u64;
	run.require("partA distinct network difficulties on the honest chains", distinct_difficulties, 3);
	// the mutants must isolate the targeted rule: at least 95% rejected for exactly that rule
	let expected = cnt("partA_rejected_for_the_targeted_rule");
	let other = cnt("partA_rejected_for_another_reason");
	run.require(
		"partA rejections for the targeted rule (per mille of all rejections)",
		if expected + other == 0 { 0 } else { expected * 1000 / (expected + other) },
		950,
	);
	if !san {
		run.require("partA far-future (FTL) reader cases judged", cnt("partA_ftl_cases_judged"), 4);
		run.require(
			"partA valid cycles below the network difficulty rejected",
			cnt("partA_valid_cycle_below_target_rejected"),
			4,
		);
	}

	// part B merge
	let mut cases = 0u64;
	let mut sig_hashes: Vec<u64> = vec![];
	let mut judged: BTreeMap<(Net, bool), u64> = BTreeMap::new();
	let mut ood: BTreeMap<String, (u64, Value)> = BTreeMap::new();
	let mut outcome_classes: BTreeMap<String, u64> = BTreeMap::new();
	for st in stats {
		cases += st.cases;
		for (s, n) in &st.sigs {
			sig_hashes.push(fnv64(s.as_bytes()));
			let oc = s.rsplit(';').next().unwrap_or("").to_string();
			*outcome_classes.entry(oc).or_insert(0) += n;
		}
		for (k, n) in st.judged {
			*judged.entry(k).or_insert(0) += n;
		}
		for (k, n) in st.counters {
			run.count(&k, n);
		}
		for (sig, (what, rep)) in st.violations {
			run.violation(&sig, &what, rep);
		}
		for (sig, n) in st.violation_hits {
			run.count(&format!("partB_windows_failing[{}]", sig), n);
		}
		for (k, (n, rep)) in st.ood_panics {
			let e = ood.entry(k).or_insert((0, rep));
			e.0 += n;
		}
		for s in st.samples {
			run.sample(s);
		}
	}
	run.eval_bulk(cases, sig_hashes);
	run.count("partB_windows", cases);
	for ((net, dma), n) in &judged {
		run.count(&format!("partB_judged[{}/{}]", net.name(), if *dma { "DMA" } else { "WTEMA" }), *n);
	}
	run.extra("partB_outcome_classes", json!(outcome_classes));
	run.extra(
		"partB_panics_outside_the_domain_observed_not_judged",
		Value::Array(
			ood.iter()
				.map(|(k, (n, rep))| json!({"where": k, "count": n, "example": rep}))
				.collect(),
		),
	);
	run.count("partB_out_of_domain_panic_classes", ood.len() as u64);
	for net in NETS {
		for dma in [true, false] {
			run.require(
				&format!("partB judged windows on {} / {}", net.name(), if dma { "DMA" } else { "WTEMA" }),
				judged.get(&(net, dma)).copied().unwrap_or(0),
				if san { 200 } else { run.tier.pick(20_000, 200_000) },
			);
		}
	}

	// literal samples of part A shapes
	run.sample(json!({"part":"A","example":"height+1, re-mined for the claimed difficulty, via process_block_header","expected":"Err(InvalidBlockHeight), header_head unchanged, get_block_header(mutant) not found"}));
	run.sample(json!({"part":"A","example":"total_difficulty+1 re-mined so that PoW reaches the inflated claim, at position 2 of a 4-header sync batch","expected":"Err(WrongTotalDifficulty)"}));
	run.sample(json!({"part":"A","example":"secondary_scaling+1 re-mined at height 13 (version 5)","expected":"accepted and stored (scaling is free after the last hard fork)"}));
	run.sample(json!({"part":"A","example":"timestamp = now + FTL + 2 s re-mined, serialized, read as UntrustedBlockHeader","expected":"Err"}));

	run.finish();
}
