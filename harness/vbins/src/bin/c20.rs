//! C20 — Keys, commitments and range-proof rewind are deterministic and recoverable.
//!
//! Runtime monitoring of the real keychain / libtx code under a generated workload:
//!   phase A  determinism + distinctness of derive_key / commit (seeds x paths x amounts x modes)
//!   phase B  range proofs: create -> verify -> rewind (same seed, fresh keychain from the same seed,
//!            other seed, view keys) for ProofBuilder and LegacyProofBuilder
//!   phase C  blinding-factor arithmetic against an own mod-n reference (split / order / add-sub / zero)
//!   phase D  libtx::build::transaction / reward::output / Block::from_reward -> validate, kernel.verify
//!   phase E  aggsig sign_from_key_id / verify round trips, Keychain::sign
//!   phase F  the public BIP32 derivation route equals the private one
//!   phase G  several parties: build::partial_transaction per party, kernel signed jointly (partial signatures)
//!
//! Every random choice is a function of (--seed, phase, case index); see `case_prng`.

use grin_core::consensus;
use grin_core::core::transaction::Weighting;
use grin_core::core::{
	Block, BlockHeader, FeeFields, KernelFeatures, Output, OutputFeatures, Transaction,
};
use grin_core::libtx::proof::{self, LegacyProofBuilder, ProofBuild, ProofBuilder};
use grin_core::libtx::{aggsig, build, reward, Error as LErr};
use grin_core::pow::Difficulty;
use grin_keychain::{
	BlindSum, BlindingFactor, ChildNumber, ExtKeychain, Identifier, Keychain,
	SwitchCommitmentType, ViewKey,
};
use grin_util::secp::key::{PublicKey, SecretKey};
use grin_util::secp::pedersen::{Commitment, ProofMessage, RangeProof};
use grin_util::secp::{Message, Secp256k1};
use grin_util::static_secp_instance;
use serde_json::{json, Value};
use std::collections::{HashMap, HashSet};
use std::sync::atomic::{AtomicUsize, Ordering};
use std::sync::Mutex;
use std::time::{Duration, Instant};
use vcommon::monitor;
use vcommon::prng::{splitmix64, Prng};
use vcommon::world::{init_globals, init_thread};
use vcommon::Run;

// ------------------------------------------------------------------ budgets

#[derive(Clone, Copy, Debug)]
struct Budget {
	a_seeds: usize,
	a_random_paths: usize,
	a_boundary_depth: u8,
	a_boundary_samples: usize,
	b_cases: usize,
	c_cases: usize,
	d_cases: usize,
	e_cases: usize,
	a_secs: u64,
	b_secs: u64,
	c_secs: u64,
	d_secs: u64,
	e_secs: u64,
}

const N_SEEDS: usize = 24;

// ------------------------------------------------------------------ small helpers

fn case_prng(run_seed: u64, phase: u64, idx: u64) -> Prng {
	let mut x = run_seed ^ phase.wrapping_mul(0x9E37_79B9_7F4A_7C15);
	let a = splitmix64(&mut x);
	Prng::new(a ^ idx.wrapping_mul(0xD6E8_FEB8_6659_FD93) ^ (phase << 56))
}

fn hex(b: &[u8]) -> String {
	let mut s = String::with_capacity(b.len() * 2);
	for x in b {
		s.push_str(&format!("{:02x}", x));
	}
	s
}

fn sw_name(s: SwitchCommitmentType) -> &'static str {
	match s {
		SwitchCommitmentType::Regular => "Regular",
		SwitchCommitmentType::None => "None",
	}
}

/// Variant name of an error's Debug rendering (stable part of a signature).
fn err_kind<E: std::fmt::Debug>(e: &E) -> String {
	let s = format!("{:?}", e);
	let end = s
		.find(|c: char| c == '(' || c == '{' || c == ' ')
		.unwrap_or(s.len());
	s[..end].to_string()
}

/// Run `threads` workers over indices 0..n until done or `deadline`; returns number executed.
fn par_for<F: Fn(usize) + Sync>(n: usize, threads: usize, deadline: Instant, f: F) -> usize {
	let next = AtomicUsize::new(0);
	let done = AtomicUsize::new(0);
	std::thread::scope(|s| {
		for _ in 0..threads.max(1) {
			s.spawn(|| {
				init_thread(false);
				loop {
					if Instant::now() >= deadline {
						break;
					}
					let i = next.fetch_add(1, Ordering::SeqCst);
					if i >= n {
						break;
					}
					f(i);
					done.fetch_add(1, Ordering::SeqCst);
				}
			});
		}
	});
	done.load(Ordering::SeqCst)
}

// ------------------------------------------------------------------ seeds

#[derive(Clone, Debug)]
struct SeedInfo {
	bytes: Vec<u8>,
	is_test: bool,
	kind: &'static str,
}

fn make_seeds(run_seed: u64) -> Vec<SeedInfo> {
	let mut p = case_prng(run_seed, 0x5EED, 0);
	let mut v: Vec<SeedInfo> = vec![];
	let s0 = p.bytes(32);
	let mut s1 = s0.clone();
	s1[31] ^= 1;
	v.push(SeedInfo { bytes: s0.clone(), is_test: false, kind: "rand32" });
	v.push(SeedInfo { bytes: s1, is_test: false, kind: "neighbour_1bit" });
	v.push(SeedInfo { bytes: vec![0u8; 32], is_test: false, kind: "zeros32" });
	v.push(SeedInfo { bytes: vec![0xffu8; 32], is_test: true, kind: "ones32" });
	v.push(SeedInfo { bytes: p.bytes(16), is_test: false, kind: "rand16" });
	let s64 = p.bytes(64);
	v.push(SeedInfo { bytes: s64.clone(), is_test: false, kind: "rand64" });
	// longer than one SHA-512 block of key material: the first 64 bytes shared with the seed above
	let mut s65 = s64.clone();
	s65.push(0x5a);
	v.push(SeedInfo { bytes: s65, is_test: false, kind: "rand64_plus_one_byte" });
	let mut s128 = s64;
	s128.extend(p.bytes(64));
	v.push(SeedInfo { bytes: s128, is_test: false, kind: "rand64_plus_64_bytes" });
	v.push(SeedInfo { bytes: vec![1u8], is_test: false, kind: "one_byte" });
	v.push(SeedInfo { bytes: s0[..31].to_vec(), is_test: true, kind: "prefix31" });
	while v.len() < N_SEEDS {
		let i = v.len();
		v.push(SeedInfo { bytes: p.bytes(32), is_test: i % 4 == 3, kind: "rand32" });
	}
	v
}

// ------------------------------------------------------------------ paths and amounts

const BOUNDARY: [u32; 5] = [0, 1, 0x7fff_ffff, 0x8000_0000, 0xffff_ffff];

fn child_class(v: u32) -> char {
	match v {
		0 => 'z',
		1 => 'o',
		0x7fff_ffff => 'M',
		0x8000_0000 => 'H',
		0xffff_ffff => 'X',
		x if x < 0x8000_0000 => 'n',
		_ => 'h',
	}
}

#[derive(Clone, Debug, PartialEq, Eq, Hash)]
struct PathSpec {
	depth: u8,
	d: [u32; 4],
}

impl PathSpec {
	fn id(&self) -> Identifier {
		ExtKeychain::derive_key_id(self.depth, self.d[0], self.d[1], self.d[2], self.d[3])
	}
	fn cls(&self) -> String {
		if self.depth == 0 {
			return "root".to_string();
		}
		(0..self.depth as usize).map(|i| child_class(self.d[i])).collect()
	}
	fn hardened(&self, i: usize) -> bool {
		self.d[i] & 0x8000_0000 != 0
	}
	fn all_normal(&self, from: usize) -> bool {
		(from..self.depth as usize).all(|i| !self.hardened(i))
	}
	fn json(&self) -> Value {
		json!({"depth": self.depth, "d": self.d[..self.depth as usize].to_vec()})
	}
}

fn gen_child(p: &mut Prng, normal_only: bool) -> u32 {
	match p.below(10) {
		0..=4 => {
			if normal_only {
				BOUNDARY[p.usize_below(3)]
			} else {
				BOUNDARY[p.usize_below(5)]
			}
		}
		5..=7 => p.next_u32() & 0x7fff_ffff,
		_ => {
			if normal_only {
				p.next_u32() & 0x7fff_ffff
			} else {
				p.next_u32() | 0x8000_0000
			}
		}
	}
}

fn gen_path(p: &mut Prng, depth: u8, normal_only: bool) -> PathSpec {
	let mut d = [0u32; 4];
	for i in 0..depth as usize {
		d[i] = gen_child(p, normal_only);
	}
	PathSpec { depth, d }
}

const AMT_CLASSES: [&str; 6] = ["0", "1", "2^32", "2^63", "max", "rand"];
const AMT_FIXED: [u64; 5] = [0, 1, 1 << 32, 1 << 63, u64::MAX];

fn amount_of(cls: usize, p: &mut Prng) -> u64 {
	if cls < 5 {
		return AMT_FIXED[cls];
	}
	loop {
		let v = if p.bool() { p.next_u64() } else { p.interesting_u64() };
		if !AMT_FIXED.contains(&v) {
			return v;
		}
	}
}

// ------------------------------------------------------------------ proof builder wrapper

#[derive(Clone, Copy, Debug, PartialEq, Eq)]
enum BKind {
	New,
	Legacy,
}

impl BKind {
	fn name(&self) -> &'static str {
		match self {
			BKind::New => "ProofBuilder",
			BKind::Legacy => "LegacyProofBuilder",
		}
	}
}

/// Pure delegation to one of the two real builders, so that generic libtx
/// functions can be instantiated once.
enum AnyBuilder<'a> {
	New(ProofBuilder<'a, ExtKeychain>),
	Legacy(LegacyProofBuilder<'a, ExtKeychain>),
}

impl<'a> AnyBuilder<'a> {
	fn new(kind: BKind, kc: &'a ExtKeychain) -> AnyBuilder<'a> {
		match kind {
			BKind::New => AnyBuilder::New(ProofBuilder::new(kc)),
			BKind::Legacy => AnyBuilder::Legacy(LegacyProofBuilder::new(kc)),
		}
	}
}

impl<'a> ProofBuild for AnyBuilder<'a> {
	fn rewind_nonce(&self, secp: &Secp256k1, commit: &Commitment) -> Result<SecretKey, LErr> {
		match self {
			AnyBuilder::New(b) => b.rewind_nonce(secp, commit),
			AnyBuilder::Legacy(b) => b.rewind_nonce(secp, commit),
		}
	}
	fn private_nonce(&self, secp: &Secp256k1, commit: &Commitment) -> Result<SecretKey, LErr> {
		match self {
			AnyBuilder::New(b) => b.private_nonce(secp, commit),
			AnyBuilder::Legacy(b) => b.private_nonce(secp, commit),
		}
	}
	fn proof_message(
		&self,
		secp: &Secp256k1,
		id: &Identifier,
		switch: SwitchCommitmentType,
	) -> Result<ProofMessage, LErr> {
		match self {
			AnyBuilder::New(b) => b.proof_message(secp, id, switch),
			AnyBuilder::Legacy(b) => b.proof_message(secp, id, switch),
		}
	}
	fn check_output(
		&self,
		secp: &Secp256k1,
		commit: &Commitment,
		amount: u64,
		message: ProofMessage,
	) -> Result<Option<(Identifier, SwitchCommitmentType)>, LErr> {
		match self {
			AnyBuilder::New(b) => b.check_output(secp, commit, amount, message),
			AnyBuilder::Legacy(b) => b.check_output(secp, commit, amount, message),
		}
	}
}

/// The legacy message format carries neither depth nor switch type ("All outputs
/// with this scheme are assumed to use regular switch commitments", depth 3):
/// its documented domain.
fn legacy_domain(path: &PathSpec, sw: SwitchCommitmentType) -> bool {
	path.depth == 3 && sw == SwitchCommitmentType::Regular
}

// ------------------------------------------------------------------ rewind classification

#[derive(Debug, Clone, PartialEq)]
enum Rw {
	Exact,
	Nothing,
	Err(String, String),
	Wrong(String, String),
}

fn classify(
	r: Result<Option<(u64, Identifier, SwitchCommitmentType)>, LErr>,
	amount: u64,
	id: &Identifier,
	sw: SwitchCommitmentType,
) -> Rw {
	match r {
		Err(e) => Rw::Err(err_kind(&e), format!("{:?}", e)),
		Ok(None) => Rw::Nothing,
		Ok(Some((a, i, s))) => {
			let mut diff = vec![];
			if a != amount {
				diff.push("amount");
			}
			if &i != id {
				diff.push("path");
			}
			if s != sw {
				diff.push("switch");
			}
			if diff.is_empty() {
				Rw::Exact
			} else {
				Rw::Wrong(
					diff.join("+"),
					format!("got ({}, {}, {}) expected ({}, {}, {})", a, i, sw_name(s), amount, id, sw_name(sw)),
				)
			}
		}
	}
}

impl Rw {
	fn tag(&self) -> String {
		match self {
			Rw::Exact => "exact".into(),
			Rw::Nothing => "none".into(),
			Rw::Err(k, _) => format!("err:{}", k),
			Rw::Wrong(k, _) => format!("wrong:{}", k),
		}
	}
	fn detail(&self) -> String {
		match self {
			Rw::Err(_, d) | Rw::Wrong(_, d) => d.clone(),
			_ => String::new(),
		}
	}
}

// ------------------------------------------------------------------ shared context

struct Ctx<'a> {
	run: &'a Run,
	seeds: &'a [SeedInfo],
	kcs: &'a [ExtKeychain],
	budget: Budget,
	threads: usize,
	only: Option<(String, usize)>,
	samples: Mutex<HashMap<&'static str, usize>>,
}

impl<'a> Ctx<'a> {
	fn wants(&self, phase: &str) -> bool {
		match &self.only {
			None => true,
			Some((p, _)) => p == phase,
		}
	}
	fn only_idx(&self, phase: &str) -> Option<usize> {
		match &self.only {
			Some((p, i)) if p == phase => Some(*i),
			_ => None,
		}
	}
	/// At most `max` literal samples per phase.
	fn sample(&self, phase: &'static str, max: usize, v: Value) {
		let mut m = self.samples.lock().unwrap();
		let e = m.entry(phase).or_insert(0);
		if *e < max {
			*e += 1;
			drop(m);
			self.run.sample(v);
		}
	}
	fn fresh_kc(&self, seed_idx: usize) -> ExtKeychain {
		let s = &self.seeds[seed_idx];
		ExtKeychain::from_seed(&s.bytes, s.is_test).expect("from_seed")
	}
	fn seed_json(&self, seed_idx: usize) -> Value {
		let s = &self.seeds[seed_idx];
		json!({"idx": seed_idx, "hex": hex(&s.bytes), "is_test": s.is_test, "kind": s.kind})
	}
	fn panic_violation(&self, phase: &str, shape: &str, rep: &monitor::PanicReport, replay: Value) {
		self.run.violation(
			&format!("phase={};shape={};event=panic@{}", phase, shape, rep.location),
			&format!("panic '{}' at {}", rep.message, rep.location),
			replay,
		);
	}
}

// ------------------------------------------------------------------ phase A: determinism / distinctness

/// (seed idx, path idx, amount, mode) that produced a commitment / key.
type Desc = (u16, u32, u64, u8);

fn phase_a_paths(ctx: &Ctx) -> Vec<PathSpec> {
	let mut paths = vec![];
	let mut seen = HashSet::new();
	// exhaustive over boundary child numbers
	for depth in 0..=ctx.budget.a_boundary_depth {
		let n = 5usize.pow(depth as u32);
		for k in 0..n {
			let mut d = [0u32; 4];
			let mut x = k;
			for i in 0..depth as usize {
				d[i] = BOUNDARY[x % 5];
				x /= 5;
			}
			let p = PathSpec { depth, d };
			if seen.insert(p.clone()) {
				paths.push(p);
			}
		}
	}
	let mut p = case_prng(ctx.run.seed, 0xA0, 0);
	// sampled boundary paths of the deeper levels
	let mut guard = 0;
	let want = paths.len() + ctx.budget.a_boundary_samples;
	while ctx.budget.a_boundary_depth < 4 && paths.len() < want && guard < 100_000 {
		guard += 1;
		let depth = ctx.budget.a_boundary_depth + 1 + p.below((4 - ctx.budget.a_boundary_depth) as u64) as u8;
		let mut d = [0u32; 4];
		for i in 0..depth as usize {
			d[i] = BOUNDARY[p.usize_below(5)];
		}
		let ps = PathSpec { depth, d };
		if seen.insert(ps.clone()) {
			paths.push(ps);
		}
	}
	let mut guard = 0;
	let want = paths.len() + ctx.budget.a_random_paths;
	while paths.len() < want && guard < 100_000 {
		guard += 1;
		let ps = if p.bool() {
			// a neighbour of a path already in the list: one component changed, one level
			// added or one level dropped (a derivation that ignores a component or a level
			// then yields a collision)
			let mut q = paths[p.usize_below(paths.len())].clone();
			match p.below(3) {
				0 if q.depth > 0 => {
					let i = p.usize_below(q.depth as usize);
					q.d[i] = if p.bool() { q.d[i] ^ 1 } else { gen_child(&mut p, false) };
				}
				1 if q.depth < 4 => {
					q.d[q.depth as usize] = gen_child(&mut p, false);
					q.depth += 1;
				}
				_ if q.depth > 0 => {
					q.depth -= 1;
					q.d[q.depth as usize] = 0;
				}
				_ => {}
			}
			q
		} else {
			let depth = 1 + p.below(4) as u8;
			gen_path(&mut p, depth, false)
		};
		if seen.insert(ps.clone()) {
			paths.push(ps);
		}
	}
	paths
}

fn phase_a(ctx: &Ctx) {
	let run = ctx.run;
	let paths = phase_a_paths(ctx);
	const CHUNK: usize = 8;
	let chunks_per_seed = (paths.len() + CHUNK - 1) / CHUNK;
	let n_items = ctx.budget.a_seeds * chunks_per_seed;
	let deadline = Instant::now() + Duration::from_secs(ctx.budget.a_secs);
	let commits: Mutex<Vec<([u8; 33], Desc)>> = Mutex::new(vec![]);
	let keys: Mutex<Vec<([u8; 32], Desc)>> = Mutex::new(vec![]);
	let modes = [SwitchCommitmentType::Regular, SwitchCommitmentType::None];

	let work = |item: usize| {
		let seed_idx = item / chunks_per_seed;
		let chunk = item % chunks_per_seed;
		let kc = &ctx.kcs[seed_idx];
		// "a second ExtKeychain::from_seed(same seed)"
		let kc2 = ctx.fresh_kc(seed_idx);
		let secp = kc.secp();
		let mut local_c = vec![];
		let mut local_k = vec![];
		let lo = chunk * CHUNK;
		let hi = (lo + CHUNK).min(paths.len());
		for pi in lo..hi {
			let path = &paths[pi];
			let id = path.id();
			let mut pr = case_prng(run.seed, 0xA1, ((seed_idx as u64) << 32) | pi as u64);
			for ac in 0..6 {
				let amount = amount_of(ac, &mut pr);
				for sw in modes {
					let shape = format!(
						"A;d={};cls={};amt={};sw={}",
						path.depth,
						path.cls(),
						AMT_CLASSES[ac],
						sw_name(sw)
					);
					let replay = json!({"phase": "determinism", "index": item, "seed": ctx.seed_json(seed_idx),
						"path": path.json(), "amount": amount, "switch": sw_name(sw)});
					let r = monitor::catch(|| {
						let k1 = kc.derive_key(amount, &id, sw);
						let k1b = kc.derive_key(amount, &id, sw);
						let k2 = kc2.derive_key(amount, &id, sw);
						let c1 = kc.commit(amount, &id, sw);
						let c1b = kc.commit(amount, &id, sw);
						let c2 = kc2.commit(amount, &id, sw);
						(k1, k1b, k2, c1, c1b, c2)
					});
					let (k1, k1b, k2, c1, c1b, c2) = match r {
						Ok(t) => t,
						Err(rep) => {
							ctx.panic_violation("determinism", &format!("d={};sw={}", path.depth, sw_name(sw)), &rep, replay);
							continue;
						}
					};
					// Results (Ok or Err) must be equal; an Err here would be a 2^-128 event.
					let ks = |k: &Result<SecretKey, grin_keychain::Error>| match k {
						Ok(k) => Ok(k.0),
						Err(e) => Err(format!("{:?}", e)),
					};
					let cs = |c: &Result<Commitment, grin_keychain::Error>| match c {
						Ok(c) => Ok(c.0),
						Err(e) => Err(format!("{:?}", e)),
					};
					if ks(&k1) != ks(&k1b) {
						run.violation(
							&format!("check=determinism;fn=derive_key;scope=same_keychain;sw={}", sw_name(sw)),
							"derive_key called twice on one keychain gave different results",
							replay.clone(),
						);
					}
					if ks(&k1) != ks(&k2) {
						run.violation(
							&format!("check=determinism;fn=derive_key;scope=second_keychain;sw={}", sw_name(sw)),
							"derive_key on a second keychain from the same seed gave a different result",
							replay.clone(),
						);
					}
					if cs(&c1) != cs(&c1b) {
						run.violation(
							&format!("check=determinism;fn=commit;scope=same_keychain;sw={}", sw_name(sw)),
							"commit called twice on one keychain gave different results",
							replay.clone(),
						);
					}
					if cs(&c1) != cs(&c2) {
						run.violation(
							&format!("check=determinism;fn=commit;scope=second_keychain;sw={}", sw_name(sw)),
							"commit on a second keychain from the same seed gave a different result",
							replay.clone(),
						);
					}
					match (&k1, &c1) {
						(Ok(k), Ok(c)) => {
							// "the resulting commitment": commit == amount*H + derive_key*G
							match secp.commit(amount, k.clone()) {
								Ok(cc) if &cc == c => {}
								other => run.violation(
									&format!("check=commit_matches_key;sw={}", sw_name(sw)),
									&format!("Keychain::commit differs from secp.commit(amount, derive_key): {:?} vs {:?}", other, c),
									replay.clone(),
								),
							}
							run.eval(&shape, true);
							run.count("A.cases", 1);
							let desc: Desc = (seed_idx as u16, pi as u32, amount, sw as u8);
							local_c.push((c.0, desc));
							// the None-mode key does not involve the amount
							let kdesc: Desc = if sw == SwitchCommitmentType::None {
								(seed_idx as u16, pi as u32, 0, sw as u8)
							} else {
								desc
							};
							local_k.push((k.0, kdesc));
							if seed_idx == 0 && pi % 97 == 5 && ac == 4 {
								ctx.sample(
									"determinism",
									1,
									json!({"phase": "determinism", "seed": ctx.seed_json(seed_idx), "path": path.json(),
										"amount": amount, "switch": sw_name(sw), "commit": hex(&c.0)}),
								);
							}
						}
						_ => {
							run.count("A.derive_or_commit_err", 1);
						}
					}
				}
			}
		}
		commits.lock().unwrap().extend(local_c);
		keys.lock().unwrap().extend(local_k);
	};

	let done = match ctx.only_idx("determinism") {
		Some(i) => {
			init_thread(false);
			work(i);
			1
		}
		None => par_for(n_items, ctx.threads, deadline, work),
	};
	run.count("A.items_done", done as u64);
	run.count("A.items_planned", n_items as u64);
	run.count("A.paths", paths.len() as u64);
	if done < n_items && ctx.only.is_none() {
		run.inconclusive(&format!("phase A time cap: {} of {} work items", done, n_items));
	}

	// distinctness: one commitment / key <- one input tuple
	let describe = |d: &Desc| {
		json!({"seed": ctx.seed_json(d.0 as usize), "path": paths[d.1 as usize].json(), "amount": d.2,
			"switch": if d.3 == SwitchCommitmentType::None as u8 { "None" } else { "Regular" }})
	};
	let collision_kind = |a: &Desc, b: &Desc| {
		let mut v = vec![];
		if a.0 != b.0 {
			v.push("seed");
		}
		if a.1 != b.1 {
			v.push("path");
		}
		if a.2 != b.2 {
			v.push("amount");
		}
		if a.3 != b.3 {
			v.push("mode");
		}
		v.join("+")
	};
	let commits = commits.into_inner().unwrap();
	let mut cmap: HashMap<[u8; 33], Desc> = HashMap::with_capacity(commits.len());
	let mut collisions = 0u64;
	for (c, d) in &commits {
		if let Some(prev) = cmap.insert(*c, *d) {
			if prev != *d {
				collisions += 1;
				run.violation(
					&format!("check=distinct_commitments;differ_in={}", collision_kind(&prev, d)),
					&format!("two different inputs gave the same commitment {}", hex(c)),
					json!({"phase": "determinism", "a": describe(&prev), "b": describe(d)}),
				);
			}
		}
	}
	let keys = keys.into_inner().unwrap();
	let mut kmap: HashMap<[u8; 32], Desc> = HashMap::with_capacity(keys.len());
	for (k, d) in &keys {
		if let Some(prev) = kmap.insert(*k, *d) {
			if prev != *d {
				collisions += 1;
				run.violation(
					&format!("check=distinct_keys;differ_in={}", collision_kind(&prev, d)),
					"two different inputs gave the same derived key",
					json!({"phase": "determinism", "a": describe(&prev), "b": describe(d)}),
				);
			}
		}
	}
	run.count("A.distinct_commitments", cmap.len() as u64);
	run.count("A.distinct_keys", kmap.len() as u64);
	run.count("A.collisions", collisions);
}

// ------------------------------------------------------------------ phase B: range proofs

struct ProofCase {
	idx: usize,
	seed_idx: usize,
	other_idx: usize,
	path: PathSpec,
	amount: u64,
	amt_cls: usize,
	sw: SwitchCommitmentType,
	kind: BKind,
}

fn gen_proof_case(ctx: &Ctx, idx: usize) -> (ProofCase, Prng) {
	let mut p = case_prng(ctx.run.seed, 0xB0, idx as u64);
	let combo = idx % 120;
	let mut depth = (combo % 5) as u8;
	let amt_cls = (combo / 5) % 6;
	let mut sw = if (combo / 30) % 2 == 0 {
		SwitchCommitmentType::Regular
	} else {
		SwitchCommitmentType::None
	};
	let kind = if (combo / 60) % 2 == 0 { BKind::New } else { BKind::Legacy };
	if kind == BKind::Legacy && p.chance(1, 2) {
		// keep the documented legacy domain well populated
		depth = 3;
		sw = SwitchCommitmentType::Regular;
	}
	let normal_only = p.chance(35, 100);
	let path = gen_path(&mut p, depth, normal_only);
	let amount = amount_of(amt_cls, &mut p);
	let n = ctx.seeds.len();
	let (seed_idx, other_idx) = if p.chance(1, 5) {
		// the 1-bit neighbour pair and the prefix seed
		match p.below(4) {
			0 => (0, 1),
			1 => (1, 0),
			2 => (0, 7),
			_ => (7, 0),
		}
	} else {
		let s = if p.bool() { p.usize_below(8.min(n)) } else { p.usize_below(n) };
		let o = (s + 1 + p.usize_below(n - 1)) % n;
		(s, o)
	};
	(
		ProofCase { idx, seed_idx, other_idx, path, amount, amt_cls, sw, kind },
		p,
	)
}

fn proof_case(ctx: &Ctx, idx: usize) {
	let run = ctx.run;
	let (c, mut p) = gen_proof_case(ctx, idx);
	let kc = &ctx.kcs[c.seed_idx];
	let secp = kc.secp();
	let id = c.path.id();
	let b = c.kind.name();
	let sws = sw_name(c.sw);
	let base = format!(
		"B;d={};cls={};amt={};sw={};b={}",
		c.path.depth,
		c.path.cls(),
		AMT_CLASSES[c.amt_cls],
		sws,
		b
	);
	let replay = json!({"phase": "proof", "index": c.idx, "seed": ctx.seed_json(c.seed_idx),
		"other_seed": ctx.seed_json(c.other_idx), "path": c.path.json(), "key_id": format!("{}", id),
		"amount": c.amount, "switch": sws, "builder": b});
	let in_domain = c.kind == BKind::New || legacy_domain(&c.path, c.sw);

	let builder = AnyBuilder::new(c.kind, kc);
	let commit = match kc.commit(c.amount, &id, c.sw) {
		Ok(c) => c,
		Err(_) => {
			run.count("B.commit_err_skipped", 1);
			return;
		}
	};
	let prf: RangeProof = match proof::create(kc, &builder, c.amount, &id, c.sw, commit, None) {
		Ok(p) => p,
		Err(_) => {
			// "can be created" is the premise of the property
			run.count(&format!("B.create_err_skipped.{}.{}", b, sws), 1);
			return;
		}
	};
	run.count(&format!("B.created.{}.{}", b, sws), 1);

	// ---- the proof verifies
	run.eval(&format!("{};chk=create_verify", base), true);
	let v1 = proof::verify(secp, commit, prf, None);
	// the consensus-side entry point (shared static secp context) on a quarter of the cases
	let v2 = if idx % 4 == 0 {
		Output::new(OutputFeatures::Plain, commit, prf).verify_proof()
	} else {
		Ok(())
	};
	if v1.is_err() || v2.is_err() {
		run.violation(
			&format!("check=proof_verify;builder={};switch={}", b, sws),
			&format!("created range proof does not verify: proof::verify={:?} Output::verify_proof={:?}", v1, v2),
			replay.clone(),
		);
	} else {
		run.count(&format!("B.verified.{}.{}", b, sws), 1);
	}
	// sanity of the verifier itself (not a property clause): another commitment must not verify
	{
		let other_amount = c.amount ^ (1u64 << p.below(64));
		if let Ok(oc) = kc.commit(other_amount, &id, c.sw) {
			if proof::verify(secp, oc, prf, None).is_err() {
				run.count("B.sanity.verify_rejects_other_commit", 1);
			} else {
				run.count("B.sanity.verify_accepts_other_commit", 1);
			}
		}
	}

	// ---- rewind with the same builder / same seed
	let expect_exact = |check: &str, r: Rw, counter: &str, extra: &str| {
		if r == Rw::Exact {
			run.count(counter, 1);
		} else {
			run.violation(
				&format!("check={};builder={};switch={};got={}", check, b, sws, r.tag()),
				&format!(
					"rewind did not recover exactly (amount, path, mode) = ({}, {}, {}){}: {} {}",
					c.amount, id, sws, extra, r.tag(), r.detail()
				),
				replay.clone(),
			);
		}
	};
	let no_wrong_data = |check: &str, r: &Rw, extra: &str| {
		if let Rw::Wrong(..) = r {
			run.violation(
				&format!("check={};builder={};switch={};got={}", check, b, sws, r.tag()),
				&format!("rewind returned data different from what was committed{}: {}", extra, r.detail()),
				replay.clone(),
			);
		}
	};

	let r_same = classify(proof::rewind(secp, &builder, commit, None, prf), c.amount, &id, c.sw);
	run.eval(&format!("{};chk=rewind_same", base), true);
	if in_domain {
		expect_exact("rewind_same_seed", r_same, &format!("B.rewind_same_seed.exact.{}.{}", b, sws), "");
	} else {
		no_wrong_data("rewind_same_seed_outside_legacy_domain", &r_same, "");
		run.count(&format!("B.legacy_outside_domain.{}", r_same.tag()), 1);
	}

	// ---- the same output proven over extra data (proof::create's last argument: what the proof additionally commits to):
	// it verifies over that data, and rewinding with the same seed and the same data recovers the same triple
	if idx % 5 == 1 {
		let n_extra = 1 + p.usize_below(64);
		let extra: Vec<u8> = if idx % 10 == 1 { vec![] } else { p.bytes(n_extra) };
		if let Ok(prf_x) = proof::create(kc, &builder, c.amount, &id, c.sw, commit, Some(extra.clone())) {
			run.eval(&format!("{};chk=extra_data", base), true);
			if proof::verify(secp, commit, prf_x, Some(extra.clone())).is_err() {
				run.violation(
					&format!("check=proof_verify_over_extra_data;builder={};switch={}", b, sws),
					&format!("a range proof created over {} bytes of extra data does not verify over the same data", extra.len()),
					replay.clone(),
				);
			} else {
				let r_x = classify(proof::rewind(secp, &builder, commit, Some(extra.clone()), prf_x), c.amount, &id, c.sw);
				if in_domain {
					expect_exact(
						"rewind_same_seed_over_extra_data",
						r_x,
						&format!("B.rewind_same_seed_over_extra_data.exact.{}.{}", b, sws),
						&format!(" (proof over {} bytes of extra data)", extra.len()),
					);
				} else {
					no_wrong_data("rewind_same_seed_over_extra_data_outside_legacy_domain", &r_x, "");
				}
			}
		}
	}

	// ---- rewind with a builder over a second keychain made from the same seed
	// (from_seed costs ~20 ms: every third case)
	if idx % 3 == 0 {
		let kc2 = ctx.fresh_kc(c.seed_idx);
		let builder2 = AnyBuilder::new(c.kind, &kc2);
		let r = classify(proof::rewind(kc2.secp(), &builder2, commit, None, prf), c.amount, &id, c.sw);
		run.eval(&format!("{};chk=rewind_fresh_keychain", base), true);
		if in_domain {
			expect_exact(
				"rewind_fresh_keychain_same_seed",
				r,
				&format!("B.rewind_fresh_keychain.exact.{}.{}", b, sws),
				" with a keychain rebuilt from the seed",
			);
		} else {
			no_wrong_data("rewind_fresh_keychain_outside_legacy_domain", &r, "");
		}
	}

	// ---- any other seed recovers nothing (both builder generations of the other seed)
	{
		let okc = &ctx.kcs[c.other_idx];
		for ok in [BKind::New, BKind::Legacy] {
			let ob = AnyBuilder::new(ok, okc);
			let r = proof::rewind(okc.secp(), &ob, commit, None, prf);
			run.eval(&format!("{};chk=rewind_other_seed_{}", base, ok.name()), true);
			match r {
				Ok(None) => run.count("B.rewind_other_seed.nothing", 1),
				Err(_) => run.count("B.rewind_other_seed.err_nothing", 1),
				Ok(Some((a, i, s))) => run.violation(
					&format!("check=rewind_other_seed;builder={};other_builder={};switch={};got=data", b, ok.name(), sws),
					&format!(
						"rewind with another seed ({}) returned ({}, {}, {})",
						ctx.seeds[c.other_idx].kind, a, i, sw_name(s)
					),
					replay.clone(),
				),
			}
		}
	}

	// ---- view keys (share the rewind nonce of ProofBuilder only)
	if c.kind == BKind::New {
		view_key_checks(ctx, &c, &mut p, &base, &replay, commit, prf);
	}

	if idx % 499 == 7 {
		ctx.sample(
			"proof",
			2,
			json!({"phase": "proof", "seed": ctx.seed_json(c.seed_idx), "path": c.path.json(), "amount": c.amount,
				"switch": sws, "builder": b, "commit": hex(&commit.0), "rewind_same_seed": "exact"}),
		);
	}
}

fn view_key_checks(
	ctx: &Ctx,
	c: &ProofCase,
	p: &mut Prng,
	base: &str,
	replay: &Value,
	commit: Commitment,
	prf: RangeProof,
) {
	let run = ctx.run;
	let kc = &ctx.kcs[c.seed_idx];
	let secp = kc.secp();
	let is_test = ctx.seeds[c.seed_idx].is_test;
	let id = c.path.id();
	let sws = sw_name(c.sw);
	let depth = c.path.depth as usize;
	let cn = |i: usize| ChildNumber::from(c.path.d[i]);

	// one matching-or-not view key and the verdict on its rewind
	let judge = |vk_kind: &str, vk: &ViewKey, matching: bool| {
		let r = classify(proof::rewind(secp, vk, commit, None, prf), c.amount, &id, c.sw);
		run.eval(&format!("{};chk=viewkey_{}_{}", base, vk_kind, if matching { "match" } else { "nomatch" }), true);
		if matching {
			if r == Rw::Exact {
				run.count(&format!("B.viewkey.matching.exact.{}", sws), 1);
				run.count(&format!("B.viewkey.matching.exact.kind.{}", vk_kind), 1);
			} else {
				run.count(
					&format!("B.viewkey.matching.{}.{}.amount_{}", r.tag(), sws, if c.amount == 0 { "zero" } else { "nonzero" }),
					1,
				);
				run.violation(
					// one signature per root cause: Regular switch commitments are not implemented
					// in ViewKey::commit (any amount); None-mode signatures carry the amount class;
					// returned-but-wrong data is a different defect from "nothing recovered".
					&match (&r, c.sw) {
						(Rw::Wrong(k, _), _) => format!("check=viewkey_rewind;switch={};event=wrong_data:{}", sws, k),
						(_, SwitchCommitmentType::Regular) => "check=viewkey_rewind;switch=Regular;event=no_recovery".to_string(),
						(_, SwitchCommitmentType::None) => format!(
							"check=viewkey_rewind;switch=None;amount={};event=no_recovery",
							if c.amount == 0 { "zero" } else { "nonzero" }
						),
					},
					&format!(
						"matching view key ({}, depth {}) did not recover (amount, path, mode) = ({}, {}, {}): {} {}",
						vk_kind, vk.depth, c.amount, id, sws, r.tag(), r.detail()
					),
					replay.clone(),
				);
			}
		} else {
			match &r {
				Rw::Wrong(..) => run.violation(
					&format!("check=viewkey_rewind_nonmatching;switch={};got={}", sws, r.tag()),
					&format!("non-matching view key ({}) returned wrong data: {}", vk_kind, r.detail()),
					replay.clone(),
				),
				_ => run.count(&format!("B.viewkey.nonmatching.{}.{}", vk_kind, r.tag()), 1),
			}
		}
	};

	// (a) root view key
	let mut hasher = kc.hasher();
	let vk_root = match ViewKey::create(kc, kc.master.clone(), &mut hasher, is_test) {
		Ok(v) => v,
		Err(e) => {
			run.count(&format!("B.viewkey.create_err.{}", err_kind(&e)), 1);
			return;
		}
	};
	judge("root", &vk_root, c.path.all_normal(0));

	if depth >= 1 {
		let j = 1 + p.usize_below(depth); // prefix length 1..=depth
		// (b) child view key by public derivation along the prefix
		if (0..j).all(|i| !c.path.hardened(i)) {
			let mut vk = Ok(vk_root.clone());
			for i in 0..j {
				vk = vk.and_then(|v| v.ckd_pub(secp, &mut hasher, cn(i)));
			}
			match vk {
				Ok(v) => judge("pub_child", &v, c.path.all_normal(j)),
				Err(e) => run.count(&format!("B.viewkey.ckd_pub_err.{}", err_kind(&e)), 1),
			}
		}
		// (c) view key created from the private node at the prefix (hardened prefix allowed)
		let prefix: Vec<ChildNumber> = (0..j).map(cn).collect();
		match kc.master.derive_priv(secp, &mut hasher, &prefix) {
			Ok(ext) => match ViewKey::create(kc, ext, &mut hasher, is_test) {
				Ok(v) => judge("priv_child", &v, c.path.all_normal(j)),
				Err(e) => run.count(&format!("B.viewkey.create_err.{}", err_kind(&e)), 1),
			},
			Err(e) => run.count(&format!("B.viewkey.derive_priv_err.{}", err_kind(&e)), 1),
		}
		// (e) sibling node (last prefix component changed): not matching
		let mut sib = prefix.clone();
		sib[j - 1] = ChildNumber::from(c.path.d[j - 1] ^ 1);
		if let Ok(ext) = kc.master.derive_priv(secp, &mut hasher, &sib) {
			if let Ok(v) = ViewKey::create(kc, ext, &mut hasher, is_test) {
				judge("sibling", &v, false);
			}
		}
	}

	// (d) root view key of another seed recovers nothing
	{
		let okc = &ctx.kcs[c.other_idx];
		let mut oh = okc.hasher();
		if let Ok(ovk) = ViewKey::create(okc, okc.master.clone(), &mut oh, ctx.seeds[c.other_idx].is_test) {
			let r = proof::rewind(okc.secp(), &ovk, commit, None, prf);
			run.eval(&format!("{};chk=viewkey_other_seed", base), true);
			match r {
				Ok(None) => run.count("B.viewkey.other_seed.nothing", 1),
				Err(_) => run.count("B.viewkey.other_seed.err_nothing", 1),
				Ok(Some((a, i, s))) => run.violation(
					&format!("check=viewkey_other_seed;switch={};got=data", sws),
					&format!("view key of another seed returned ({}, {}, {})", a, i, sw_name(s)),
					replay.clone(),
				),
			}
		}
	}
}

fn phase_b(ctx: &Ctx) {
	let deadline = Instant::now() + Duration::from_secs(ctx.budget.b_secs);
	let work = |i: usize| {
		let r = monitor::catch(|| proof_case(ctx, i));
		if let Err(rep) = r {
			let (c, _) = gen_proof_case(ctx, i);
			ctx.panic_violation(
				"proof",
				&format!("builder={};switch={}", c.kind.name(), sw_name(c.sw)),
				&rep,
				json!({"phase": "proof", "index": i, "seed": ctx.seed_json(c.seed_idx), "path": c.path.json(),
					"amount": c.amount, "switch": sw_name(c.sw), "builder": c.kind.name()}),
			);
		}
	};
	let n = ctx.budget.b_cases;
	let done = match ctx.only_idx("proof") {
		Some(i) => {
			init_thread(false);
			work(i);
			1
		}
		None => par_for(n, ctx.threads, deadline, work),
	};
	ctx.run.count("B.cases_done", done as u64);
	ctx.run.count("B.cases_planned", n as u64);
	if done < n && ctx.only.is_none() {
		ctx.run.inconclusive(&format!("phase B time cap: {} of {} proof cases", done, n));
	}
}

// ------------------------------------------------------------------ phase C: blinding-factor arithmetic

/// Own 256-bit arithmetic modulo the secp256k1 group order (little-endian limbs).
type U256 = [u64; 4];
const ORDER: U256 = [
	0xBFD2_5E8C_D036_4141,
	0xBAAE_DCE6_AF48_A03B,
	0xFFFF_FFFF_FFFF_FFFE,
	0xFFFF_FFFF_FFFF_FFFF,
];
const U_ZERO: U256 = [0; 4];

fn u_from_be(b: &[u8]) -> U256 {
	let mut x = [0u64; 4];
	for i in 0..4 {
		let mut w = [0u8; 8];
		w.copy_from_slice(&b[i * 8..i * 8 + 8]);
		x[3 - i] = u64::from_be_bytes(w);
	}
	x
}
fn u_to_be(x: &U256) -> [u8; 32] {
	let mut b = [0u8; 32];
	for i in 0..4 {
		b[i * 8..i * 8 + 8].copy_from_slice(&x[3 - i].to_be_bytes());
	}
	b
}
fn u_ge(a: &U256, b: &U256) -> bool {
	for i in (0..4).rev() {
		if a[i] != b[i] {
			return a[i] > b[i];
		}
	}
	true
}
fn u_add(a: &U256, b: &U256) -> (U256, bool) {
	let mut r = [0u64; 4];
	let mut carry = 0u128;
	for i in 0..4 {
		let s = a[i] as u128 + b[i] as u128 + carry;
		r[i] = s as u64;
		carry = s >> 64;
	}
	(r, carry != 0)
}
fn u_sub(a: &U256, b: &U256) -> U256 {
	let mut r = [0u64; 4];
	let mut borrow = 0i128;
	for i in 0..4 {
		let mut s = a[i] as i128 - b[i] as i128 - borrow;
		if s < 0 {
			s += 1i128 << 64;
			borrow = 1;
		} else {
			borrow = 0;
		}
		r[i] = s as u64;
	}
	r
}
fn mod_add(a: &U256, b: &U256) -> U256 {
	let (s, c) = u_add(a, b);
	if c || u_ge(&s, &ORDER) {
		u_sub(&s, &ORDER)
	} else {
		s
	}
}
fn mod_sub(a: &U256, b: &U256) -> U256 {
	if u_ge(a, b) {
		u_sub(a, b)
	} else {
		u_sub(&u_add(a, &ORDER).0, b)
	}
}
fn mod_neg(a: &U256) -> U256 {
	mod_sub(&U_ZERO, a)
}

/// A valid non-zero scalar (< n), biased to boundaries.
fn gen_scalar(p: &mut Prng) -> U256 {
	let one: U256 = [1, 0, 0, 0];
	match p.below(12) {
		0 => one,
		1 => [2, 0, 0, 0],
		2 => u_sub(&ORDER, &one),
		3 => u_sub(&ORDER, &[2, 0, 0, 0]),
		4 => [0, 0, 0, 1u64 << 63],
		5 => [1 + p.below(u32::MAX as u64), 0, 0, 0],
		6 => u_sub(&ORDER, &[1 + p.below(u32::MAX as u64), 0, 0, 0]),
		_ => loop {
			let b = p.bytes(32);
			let x = u_from_be(&b);
			if x != U_ZERO && !u_ge(&x, &ORDER) {
				break x;
			}
		},
	}
}

fn bf_of(x: &U256) -> BlindingFactor {
	BlindingFactor::from_slice(&u_to_be(x))
}
fn u_of_bf(b: &BlindingFactor) -> U256 {
	u_from_be(b.as_ref())
}
fn scalar_class(x: &U256) -> &'static str {
	let one: U256 = [1, 0, 0, 0];
	if *x == U_ZERO {
		"zero"
	} else if x[1] == 0 && x[2] == 0 && x[3] == 0 {
		"small"
	} else if u_ge(x, &u_sub(&ORDER, &[u32::MAX as u64 + 1, 0, 0, 0])) {
		"near_n"
	} else if *x == [0, 0, 0, 1u64 << 63] {
		"2^255"
	} else if *x == one {
		"small"
	} else {
		"rand"
	}
}

#[derive(Debug, PartialEq)]
enum SumOutcome {
	Match,
	ZeroAsZero,
	ZeroAsErr,
	Wrong(String),
	UnexpectedErr(String),
}

fn judge_sum<E: std::fmt::Debug>(res: Result<BlindingFactor, E>, expected: &U256) -> SumOutcome {
	match res {
		Ok(b) => {
			let got = u_of_bf(&b);
			if got == *expected {
				if *expected == U_ZERO {
					SumOutcome::ZeroAsZero
				} else {
					SumOutcome::Match
				}
			} else {
				SumOutcome::Wrong(format!("got {} expected {}", hex(&u_to_be(&got)), hex(&u_to_be(expected))))
			}
		}
		Err(e) => {
			if *expected == U_ZERO {
				SumOutcome::ZeroAsErr
			} else {
				SumOutcome::UnexpectedErr(format!("{:?}", e))
			}
		}
	}
}

fn blind_case(ctx: &Ctx, idx: usize) {
	let run = ctx.run;
	let mut p = case_prng(run.seed, 0xC0, idx as u64);
	let seed_idx = p.usize_below(ctx.kcs.len());
	let kc = &ctx.kcs[seed_idx];
	let secp = kc.secp();
	let kind = idx % 4;
	let sk_of = |x: &U256| SecretKey::from_slice(secp, &u_to_be(x));

	// report helper: outcome of one clause
	let clause = |check: &str, cl: &str, out: SumOutcome, operands: Value| match out {
		SumOutcome::Match => run.count(&format!("C.{}.{}.ok", check, cl), 1),
		SumOutcome::ZeroAsZero => run.count("C.zero_sum.returned_zero", 1),
		SumOutcome::ZeroAsErr => run.count("C.zero_sum.returned_err", 1),
		SumOutcome::Wrong(d) => run.violation(
			&format!("check={};clause={};got=wrong_value", check, cl),
			&d,
			json!({"phase": "blind", "index": idx, "operands": operands}),
		),
		SumOutcome::UnexpectedErr(d) => run.violation(
			&format!("check={};clause={};got=err", check, cl),
			&format!("unexpected error for a non-zero sum: {}", d),
			json!({"phase": "blind", "index": idx, "operands": operands}),
		),
	};
	let h = |x: &U256| hex(&u_to_be(x));

	match kind {
		// ---- split parts sum to the whole
		0 => {
			let k = gen_scalar(&mut p);
			let mut k1 = gen_scalar(&mut p);
			if p.chance(1, 25) {
				k1 = k; // k2 would be zero
			}
			let ops = json!({"k": h(&k), "k1": h(&k1)});
			let sig = format!("C;split;k={};k1={};eq={}", scalar_class(&k), scalar_class(&k1), k == k1);
			run.eval(&sig, true);
			let (bk, bk1) = (bf_of(&k), bf_of(&k1));
			let exp_k2 = mod_sub(&k, &k1);
			let r = bk.split(&bk1, secp);
			let k2 = match &r {
				Ok(b) => Some(b.clone()),
				Err(_) => None,
			};
			clause("split", "k2_is_k_minus_k1", judge_sum(r, &exp_k2), ops.clone());
			if let Some(bk2) = k2 {
				if !bk2.is_zero() {
					clause("split", "k1_add_k2", judge_sum(bk1.add(&bk2, secp), &k), ops.clone());
					clause("split", "k2_add_k1", judge_sum(bk2.add(&bk1, secp), &k), ops.clone());
					let bs = BlindSum::new()
						.add_blinding_factor(bk1.clone())
						.add_blinding_factor(bk2.clone());
					clause("split", "keychain_blind_sum", judge_sum(kc.blind_sum(&bs), &k), ops.clone());
					if let (Ok(s1), Ok(s2)) = (bk1.secret_key(secp), bk2.secret_key(secp)) {
						let r = secp.blind_sum(vec![s1, s2], vec![]).map(BlindingFactor::from_secret_key);
						clause("split", "secp_blind_sum", judge_sum(r, &k), ops.clone());
					}
					run.count("C.split.cases", 1);
				}
			}
		}
		// ---- sums do not depend on operand order (and equal the reference)
		1 => {
			let np = 1 + p.usize_below(5);
			let nn = p.usize_below(5);
			let pos: Vec<U256> = (0..np).map(|_| gen_scalar(&mut p)).collect();
			let mut neg: Vec<U256> = (0..nn).map(|_| gen_scalar(&mut p)).collect();
			if nn > 0 && p.chance(1, 10) {
				neg[0] = pos[0]; // cancelling pair
			}
			let with_ids = idx % 12 == 1;
			let mut kp = vec![];
			let mut kn = vec![];
			if with_ids {
				for _ in 0..p.usize_below(3) {
					let d = p.below(5) as u8;
					kp.push((gen_path(&mut p, d, false), p.interesting_u64(), p.bool()));
				}
				for _ in 0..p.usize_below(3) {
					let d = p.below(5) as u8;
					kn.push((gen_path(&mut p, d, false), p.interesting_u64(), p.bool()));
				}
			}
			let sig = format!("C;order;pos={};neg={};kpos={};kneg={}", np, nn, kp.len(), kn.len());
			run.eval(&sig, true);
			let ops = json!({"pos": pos.iter().map(h).collect::<Vec<_>>(), "neg": neg.iter().map(h).collect::<Vec<_>>(),
				"seed": ctx.seed_json(seed_idx),
				"key_pos": kp.iter().map(|(p, v, r)| json!([p.json(), v, r])).collect::<Vec<_>>(),
				"key_neg": kn.iter().map(|(p, v, r)| json!([p.json(), v, r])).collect::<Vec<_>>()});
			// reference
			let mut exp = U_ZERO;
			for x in &pos {
				exp = mod_add(&exp, x);
			}
			for x in &neg {
				exp = mod_sub(&exp, x);
			}
			let swt = |regular: bool| {
				if regular {
					SwitchCommitmentType::Regular
				} else {
					SwitchCommitmentType::None
				}
			};
			let mut derive_fail = false;
			for (path, v, reg) in &kp {
				match kc.derive_key(*v, &path.id(), swt(*reg)) {
					Ok(k) => exp = mod_add(&exp, &u_from_be(&k.0)),
					Err(_) => derive_fail = true,
				}
			}
			for (path, v, reg) in &kn {
				match kc.derive_key(*v, &path.id(), swt(*reg)) {
					Ok(k) => exp = mod_sub(&exp, &u_from_be(&k.0)),
					Err(_) => derive_fail = true,
				}
			}
			if derive_fail {
				run.count("C.order.derive_err_skipped", 1);
				return;
			}
			let build = |pos: &[U256], neg: &[U256], kp: &[(PathSpec, u64, bool)], kn: &[(PathSpec, u64, bool)]| {
				let mut bs = BlindSum::new();
				for x in pos {
					bs = bs.add_blinding_factor(bf_of(x));
				}
				for x in neg {
					bs = bs.sub_blinding_factor(bf_of(x));
				}
				for (path, v, reg) in kp {
					let mut vp = path.id().to_value_path(*v);
					vp.switch = swt(*reg);
					bs = bs.add_key_id(vp);
				}
				for (path, v, reg) in kn {
					let mut vp = path.id().to_value_path(*v);
					vp.switch = swt(*reg);
					bs = bs.sub_key_id(vp);
				}
				bs
			};
			let r1 = kc.blind_sum(&build(&pos, &neg, &kp, &kn));
			clause("sum_order", "original_vs_reference", judge_sum(r1.clone(), &exp), ops.clone());
			for _ in 0..2 {
				let (mut pos2, mut neg2, mut kp2, mut kn2) = (pos.clone(), neg.clone(), kp.clone(), kn.clone());
				p.shuffle(&mut pos2);
				p.shuffle(&mut neg2);
				p.shuffle(&mut kp2);
				p.shuffle(&mut kn2);
				let r2 = kc.blind_sum(&build(&pos2, &neg2, &kp2, &kn2));
				match (&r1, &r2) {
					(Ok(a), Ok(b)) if a == b => run.count("C.sum_order.permutation_equal", 1),
					(Err(_), Err(_)) => run.count("C.sum_order.permutation_both_err", 1),
					_ => run.violation(
						"check=sum_order;clause=permutation_changes_keychain_blind_sum",
						&format!("blind_sum depends on operand order: {:?} vs {:?} (keys hidden)", r1.is_ok(), r2.is_ok()),
						json!({"phase": "blind", "index": idx, "operands": ops}),
					),
				}
				// secp.blind_sum on the raw keys
				let sp: Result<Vec<SecretKey>, _> = pos2.iter().map(&sk_of).collect();
				let sn: Result<Vec<SecretKey>, _> = neg2.iter().map(&sk_of).collect();
				if let (Ok(sp), Ok(sn), true) = (sp, sn, kp.is_empty() && kn.is_empty()) {
					let r3 = secp.blind_sum(sp, sn).map(BlindingFactor::from_secret_key);
					clause("sum_order", "secp_blind_sum_permuted", judge_sum(r3, &exp), ops.clone());
				}
			}
			// a + b == b + a through BlindingFactor::add
			if np >= 2 {
				let (a, b) = (bf_of(&pos[0]), bf_of(&pos[1]));
				let e = mod_add(&pos[0], &pos[1]);
				clause("sum_order", "add_ab", judge_sum(a.add(&b, secp), &e), ops.clone());
				clause("sum_order", "add_ba", judge_sum(b.add(&a, secp), &e), ops.clone());
			}
			run.count("C.order.cases", 1);
		}
		// ---- adding then subtracting restores the original
		2 => {
			let k = gen_scalar(&mut p);
			let n_a = 1 + p.usize_below(3);
			let mut adds: Vec<U256> = (0..n_a).map(|_| gen_scalar(&mut p)).collect();
			if p.chance(1, 20) {
				adds[0] = mod_neg(&k); // the intermediate sum is zero
			}
			let ops = json!({"k": h(&k), "adds": adds.iter().map(h).collect::<Vec<_>>()});
			run.eval(&format!("C;addsub;k={};n={};a0={}", scalar_class(&k), n_a, scalar_class(&adds[0])), true);
			// through add / split (split is subtraction)
			let mut cur = Some(bf_of(&k));
			let mut exp = k;
			let mut broke = false;
			for a in &adds {
				exp = mod_add(&exp, a);
				let r = cur.as_ref().unwrap().add(&bf_of(a), secp);
				match judge_sum(r.clone(), &exp) {
					SumOutcome::Match | SumOutcome::ZeroAsZero => cur = r.ok(),
					SumOutcome::ZeroAsErr => {
						run.count("C.zero_sum.returned_err", 1);
						broke = true;
						break;
					}
					o => {
						clause("add_sub", "add_step", o, ops.clone());
						broke = true;
						break;
					}
				}
				if exp == U_ZERO {
					// continuing from a zero blinding factor is covered by the zero cases
					broke = true;
					break;
				}
			}
			if !broke {
				let mut order: Vec<usize> = (0..adds.len()).collect();
				p.shuffle(&mut order);
				let mut ok = true;
				for i in order {
					exp = mod_sub(&exp, &adds[i]);
					if exp == U_ZERO {
						ok = false;
						break;
					}
					let r = cur.as_ref().unwrap().split(&bf_of(&adds[i]), secp);
					match judge_sum(r.clone(), &exp) {
						SumOutcome::Match => cur = r.ok(),
						o => {
							clause("add_sub", "sub_step", o, ops.clone());
							ok = false;
							break;
						}
					}
				}
				if ok {
					clause("add_sub", "add_then_split_restores", judge_sum::<()>(Ok(cur.unwrap()), &k), ops.clone());
				}
			}
			// through BlindSum and secp.blind_sum: +k +a.. -a..
			let mut bs = BlindSum::new().add_blinding_factor(bf_of(&k));
			for a in &adds {
				bs = bs.add_blinding_factor(bf_of(a));
			}
			let mut rev = adds.clone();
			p.shuffle(&mut rev);
			for a in &rev {
				bs = bs.sub_blinding_factor(bf_of(a));
			}
			clause("add_sub", "keychain_blind_sum_restores", judge_sum(kc.blind_sum(&bs), &k), ops.clone());
			let mut sp = vec![sk_of(&k)];
			sp.extend(adds.iter().map(&sk_of));
			let sp: Result<Vec<SecretKey>, _> = sp.into_iter().collect();
			let sn: Result<Vec<SecretKey>, _> = rev.iter().map(&sk_of).collect();
			if let (Ok(sp), Ok(sn)) = (sp, sn) {
				let r = secp.blind_sum(sp, sn).map(BlindingFactor::from_secret_key);
				clause("add_sub", "secp_blind_sum_restores", judge_sum(r, &k), ops.clone());
			}
			run.count("C.addsub.cases", 1);
		}
		// ---- zero handling (BlindingFactor::zero is a valid blinding factor, not a valid secret key)
		_ => {
			let k = gen_scalar(&mut p);
			let bk = bf_of(&k);
			let z = BlindingFactor::zero();
			let ops = json!({"k": h(&k)});
			run.eval(&format!("C;zero;k={}", scalar_class(&k)), true);
			clause("zero", "k_add_zero", judge_sum(bk.add(&z, secp), &k), ops.clone());
			clause("zero", "zero_add_k", judge_sum(z.add(&bk, secp), &k), ops.clone());
			match z.add(&z, secp) {
				Ok(b) if b.is_zero() => run.count("C.zero.zero_add_zero.ok", 1),
				Ok(_) => run.violation("check=zero;clause=zero_add_zero;got=wrong_value", "0 + 0 is not the zero blinding factor", json!({"phase": "blind", "index": idx})),
				Err(_) => run.count("C.zero_sum.returned_err", 1),
			}
			let bs = BlindSum::new().add_blinding_factor(bk.clone()).add_blinding_factor(z.clone());
			clause("zero", "blind_sum_plus_zero", judge_sum(kc.blind_sum(&bs), &k), ops.clone());
			let bs = BlindSum::new().add_blinding_factor(bk.clone()).sub_blinding_factor(z.clone());
			clause("zero", "blind_sum_minus_zero", judge_sum(kc.blind_sum(&bs), &k), ops.clone());
			// k - 0 = k, k - k = 0, 0 - k = -k: either the right value or the documented error, never another value
			let lenient = |cl: &str, r: Result<BlindingFactor, grin_keychain::Error>, exp: U256| match judge_sum(r, &exp) {
				SumOutcome::UnexpectedErr(_) => run.count(&format!("C.zero.{}.documented_err", cl), 1),
				o => clause("zero", cl, o, ops.clone()),
			};
			lenient("k_split_zero", bk.split(&z, secp), k);
			lenient("k_split_k", bk.split(&bk, secp), U_ZERO);
			lenient("zero_split_k", z.split(&bk, secp), mod_neg(&k));
			run.count("C.zero.cases", 1);
		}
	}
}

fn phase_c(ctx: &Ctx) {
	let deadline = Instant::now() + Duration::from_secs(ctx.budget.c_secs);
	let work = |i: usize| {
		if let Err(rep) = monitor::catch(|| blind_case(ctx, i)) {
			let kind = ["split", "order", "addsub", "zero"][i % 4];
			ctx.panic_violation("blind", kind, &rep, json!({"phase": "blind", "index": i}));
		}
	};
	let n = ctx.budget.c_cases;
	let done = match ctx.only_idx("blind") {
		Some(i) => {
			init_thread(false);
			work(i);
			1
		}
		None => par_for(n, ctx.threads, deadline, work),
	};
	ctx.run.count("C.cases_done", done as u64);
	if done < n && ctx.only.is_none() {
		ctx.run.inconclusive(&format!("phase C time cap: {} of {} cases", done, n));
	}
	if ctx.only.is_none() {
		ctx.sample(
			"blind",
			1,
			json!({"phase": "blind", "example": "k.split(k1) = k2; k1.add(k2) == k; blind_sum(+k1 +k2) == k; compared with own mod-n arithmetic",
				"boundary_scalars": ["1", "2", "n-1", "n-2", "2^255", "n-small", "small", "zero"]}),
		);
	}
}

// ------------------------------------------------------------------ phase D: builder, reward, block

#[derive(Clone, Debug)]
struct TxPlan {
	ins: Vec<(u64, PathSpec, bool)>,
	outs: Vec<(u64, PathSpec)>,
	fee: u64,
	lock: Option<u64>,
	amt_shape: &'static str,
}

const FEE_MAX: u64 = (1u64 << 40) - 1;

fn fresh_path(p: &mut Prng, used: &mut HashSet<PathSpec>, depth3_bias: bool) -> PathSpec {
	loop {
		let depth = if depth3_bias && p.chance(2, 3) { 3 } else { p.below(5) as u8 };
		let ps = gen_path(p, depth, false);
		if used.insert(ps.clone()) {
			return ps;
		}
	}
}

fn gen_tx_plan(p: &mut Prng, used: &mut HashSet<PathSpec>, legacy: bool) -> TxPlan {
	let n_in = 1 + p.usize_below(4);
	let n_out = p.usize_below(4);
	let shape = if n_out == 0 {
		"all_fee"
	} else {
		match p.below(4) {
			0 => "small",
			1 => "medium",
			2 => "large",
			_ => "max_total",
		}
	};
	let mut ins = vec![];
	let mut total: u64 = 0;
	for i in 0..n_in {
		let v = match shape {
			"all_fee" => 1 + p.below(1 << 37),
			"small" => 1 + p.below(1000),
			"medium" => 1 + p.below(1 << 40),
			"large" => 1 + p.below(1 << 61),
			_ => {
				// inputs summing to exactly 2^64-1
				if i + 1 == n_in {
					u64::MAX - total
				} else {
					p.below((u64::MAX - total) / 2 + 1)
				}
			}
		};
		total += v;
		ins.push((v, fresh_path(p, used, false), p.chance(1, 4)));
	}
	let fee = if n_out == 0 {
		total
	} else {
		let f = match p.below(3) {
			0 => 1,
			1 => 1 + p.below(total.min(FEE_MAX)),
			_ => total.min(FEE_MAX).max(1),
		};
		f.min(total)
	};
	let mut rest = total - fee;
	let mut outs = vec![];
	for i in 0..n_out {
		let v = if i + 1 == n_out {
			rest
		} else if p.chance(1, 8) {
			0
		} else {
			p.below(rest + 1)
		};
		rest -= v;
		outs.push((v, fresh_path(p, used, legacy)));
	}
	let lock = if p.chance(2, 5) { Some(p.below(2)) } else { None };
	TxPlan { ins, outs, fee, lock, amt_shape: shape }
}

impl TxPlan {
	fn features(&self) -> KernelFeatures {
		let fee = FeeFields::new(0, self.fee).expect("fee fields");
		match self.lock {
			None => KernelFeatures::Plain { fee },
			Some(h) => KernelFeatures::HeightLocked { fee, lock_height: h },
		}
	}
	fn json(&self) -> Value {
		json!({"inputs": self.ins.iter().map(|(v, p, cb)| json!([v, p.json(), cb])).collect::<Vec<_>>(),
			"outputs": self.outs.iter().map(|(v, p)| json!([v, p.json()])).collect::<Vec<_>>(),
			"fee": self.fee, "lock_height": self.lock})
	}
	fn shape(&self) -> String {
		let cb = self.ins.iter().filter(|x| x.2).count();
		format!(
			"in={};cb_in={};out={};feat={};amts={}",
			self.ins.len(),
			cb,
			self.outs.len(),
			if self.lock.is_some() { "HeightLocked" } else { "Plain" },
			self.amt_shape
		)
	}
}

fn builder_case(ctx: &Ctx, idx: usize) {
	let run = ctx.run;
	let mut p = case_prng(run.seed, 0xD0, idx as u64);
	let seed_idx = p.usize_below(ctx.kcs.len());
	let kc = &ctx.kcs[seed_idx];
	let secp = kc.secp();
	let kind = if idx % 3 == 2 { BKind::Legacy } else { BKind::New };
	let b = kind.name();
	let builder = AnyBuilder::new(kind, kc);
	let mut used = HashSet::new();
	let n_tx = match p.below(10) {
		0 => 0,
		1..=7 => 1,
		_ => 2,
	};
	let plans: Vec<TxPlan> = (0..n_tx).map(|_| gen_tx_plan(&mut p, &mut used, kind == BKind::Legacy)).collect();
	let cb_path = fresh_path(&mut p, &mut used, kind == BKind::Legacy);
	let test_mode = p.bool();
	let prev_offset = if p.chance(1, 3) { Some(gen_scalar(&mut p)) } else { None };
	let use_with_kernel = p.chance(1, 3);
	let replay = json!({"phase": "builder", "index": idx, "seed": ctx.seed_json(seed_idx), "builder": b,
		"txs": plans.iter().map(|t| t.json()).collect::<Vec<_>>(), "coinbase_path": cb_path.json(),
		"test_mode": test_mode, "prev_offset": prev_offset.as_ref().map(|x| hex(&u_to_be(x)))});

	let mut txs: Vec<Transaction> = vec![];
	let mut all_ok = true;
	for plan in &plans {
		let shape = format!("D;tx;{};b={}", plan.shape(), b);
		let mut elems: Vec<Box<build::Append<ExtKeychain, AnyBuilder>>> = vec![];
		for (v, path, cb) in &plan.ins {
			if *cb {
				elems.push(build::coinbase_input(*v, path.id()));
			} else {
				elems.push(build::input(*v, path.id()));
			}
		}
		for (v, path) in &plan.outs {
			elems.push(build::output(*v, path.id()));
		}
		p.shuffle(&mut elems);
		let built = if use_with_kernel {
			// same construction with an excess taken from the harness PRNG
			let excess = bf_of(&gen_scalar(&mut p));
			(|| -> Result<Transaction, LErr> {
				let mut kernel = grin_core::core::TxKernel::with_features(plan.features());
				let msg = kernel.msg_to_sign()?;
				let skey = excess.secret_key(secp)?;
				kernel.excess = secp.commit(0, skey)?;
				let pubkey = kernel.excess.to_pubkey(secp)?;
				kernel.excess_sig = aggsig::sign_with_blinding(secp, &msg, &excess, Some(&pubkey))?;
				build::transaction_with_kernel(&elems, kernel, excess.clone(), kc, &builder)
			})()
		} else {
			build::transaction(plan.features(), &elems, kc, &builder)
		};
		let api = if use_with_kernel { "transaction_with_kernel" } else { "transaction" };
		run.eval(&format!("{};api={}", shape, api), true);
		let tx = match built {
			Ok(t) => t,
			Err(e) => {
				all_ok = false;
				run.violation(
					&format!("check=build_tx;api={};builder={};got=err:{}", api, b, err_kind(&e)),
					&format!("builder failed on a balanced multiset: {:?}", e),
					replay.clone(),
				);
				continue;
			}
		};
		run.count("D.tx.built", 1);
		match tx.validate(Weighting::AsTransaction) {
			Ok(()) => run.count("D.tx.validated", 1),
			Err(e) => {
				all_ok = false;
				run.violation(
					&format!("check=tx_validate;api={};builder={};got=err:{}", api, b, err_kind(&e)),
					&format!("builder transaction does not validate: {:?}", e),
					replay.clone(),
				);
			}
		}
		if tx.kernels().len() != 1 || tx.fee() != plan.fee || tx.outputs().len() != plan.outs.len() || tx.inputs().len() != plan.ins.len() {
			run.violation(
				&format!("check=tx_shape;api={};builder={}", api, b),
				&format!("built tx has {} kernels, fee {}, {} outputs, {} inputs", tx.kernels().len(), tx.fee(), tx.outputs().len(), tx.inputs().len()),
				replay.clone(),
			);
		}
		for k in tx.kernels() {
			match k.verify() {
				Ok(()) => run.count("D.tx.kernel_sig_verified", 1),
				Err(e) => {
					all_ok = false;
					run.violation(
						&format!("check=kernel_verify;api={};builder={};got=err:{}", api, b, err_kind(&e)),
						&format!("kernel signature of a builder transaction does not verify: {:?}", e),
						replay.clone(),
					);
				}
			}
		}
		// every output: commitment as the keychain gives it, proof verifies, rewind gives (value, key id, Regular)
		for (v, path) in &plan.outs {
			let id = path.id();
			let sw = SwitchCommitmentType::Regular;
			let commit = match kc.commit(*v, &id, sw) {
				Ok(c) => c,
				Err(_) => continue,
			};
			match tx.outputs().iter().find(|o| o.commitment() == commit) {
				None => run.violation(
					&format!("check=tx_output_commit;builder={}", b),
					&format!("no output with the keychain commitment for ({}, {})", v, id),
					replay.clone(),
				),
				Some(o) => {
					run.eval(&format!("D;tx_output;d={};cls={};b={}", path.depth, path.cls(), b), true);
					if let Err(e) = o.verify_proof() {
						run.violation(
							&format!("check=tx_output_proof;builder={};got=err:{}", b, err_kind(&e)),
							&format!("output proof does not verify: {:?}", e),
							replay.clone(),
						);
					}
					let r = classify(proof::rewind(secp, &builder, commit, None, o.proof()), *v, &id, sw);
					if kind == BKind::New || legacy_domain(path, sw) {
						if r == Rw::Exact {
							run.count(&format!("D.tx.output_rewind_exact.{}", b), 1);
						} else {
							run.violation(
								&format!("check=tx_output_rewind;builder={};got={}", b, r.tag()),
								&format!("rewind of a builder output did not give ({}, {}, Regular): {}", v, id, r.detail()),
								replay.clone(),
							);
						}
					} else if let Rw::Wrong(..) = r {
						run.violation(
							&format!("check=tx_output_rewind_outside_legacy_domain;builder={};got={}", b, r.tag()),
							&r.detail(),
							replay.clone(),
						);
					}
				}
			}
		}
		// partial_transaction on the inputs alone: blinding sum = -(sum of input keys), by the reference
		{
			let mut exp = U_ZERO;
			let mut ok = true;
			let mut ins_only: Vec<Box<build::Append<ExtKeychain, AnyBuilder>>> = vec![];
			for (v, path, _) in &plan.ins {
				ins_only.push(build::input(*v, path.id()));
				match kc.derive_key(*v, &path.id(), SwitchCommitmentType::Regular) {
					Ok(k) => exp = mod_sub(&exp, &u_from_be(&k.0)),
					Err(_) => ok = false,
				}
			}
			if ok {
				let r = build::partial_transaction(Transaction::empty(), &ins_only, kc, &builder).map(|(_, bf)| bf);
				match judge_sum(r, &exp) {
					SumOutcome::Match => run.count("D.partial_tx.blind_sum_matches_reference", 1),
					SumOutcome::ZeroAsErr | SumOutcome::ZeroAsZero => {}
					o => run.violation(
						"check=partial_transaction_blind_sum",
						&format!("partial_transaction blinding sum differs from -(sum of input keys): {:?}", o),
						replay.clone(),
					),
				}
			}
		}
		txs.push(tx);
	}

	// ---- coinbase
	let fees: u64 = plans.iter().map(|t| t.fee).sum();
	let cb_id = cb_path.id();
	let value = consensus::reward(fees);
	run.eval(
		&format!("D;reward;d={};cls={};fees={};test_mode={};b={}", cb_path.depth, cb_path.cls(), if fees == 0 { "0" } else { ">0" }, test_mode, b),
		true,
	);
	let (out, kern) = match reward::output(kc, &builder, &cb_id, fees, test_mode) {
		Ok(x) => x,
		Err(e) => {
			run.violation(
				&format!("check=reward_output;builder={};got=err:{}", b, err_kind(&e)),
				&format!("reward::output failed: {:?}", e),
				replay.clone(),
			);
			return;
		}
	};
	let mut cb_ok = true;
	let mut cb_fail = |clause: &str, what: String| {
		cb_ok = false;
		run.violation(&format!("check=reward_output;clause={};builder={}", clause, b), &what, replay.clone());
	};
	if !out.is_coinbase() || !kern.is_coinbase() {
		cb_fail("coinbase_features", "reward output / kernel are not marked coinbase".into());
	}
	if let Err(e) = out.verify_proof() {
		cb_fail("proof_verifies", format!("reward output proof does not verify: {:?}", e));
	}
	if let Err(e) = kern.verify() {
		cb_fail("kernel_verifies", format!("reward kernel signature does not verify: {:?}", e));
	}
	if let Ok(c) = kc.commit(value, &cb_id, SwitchCommitmentType::Regular) {
		if c != out.commitment() {
			cb_fail("commitment", "reward output commitment differs from Keychain::commit(reward(fees), key_id, Regular)".into());
		}
	}
	{
		let r = classify(
			proof::rewind(secp, &builder, out.commitment(), None, out.proof()),
			value,
			&cb_id,
			SwitchCommitmentType::Regular,
		);
		if kind == BKind::New || legacy_domain(&cb_path, SwitchCommitmentType::Regular) {
			if r != Rw::Exact {
				cb_fail("rewind", format!("rewind of the reward output: {} {}", r.tag(), r.detail()));
			}
		} else if let Rw::Wrong(..) = r {
			cb_fail("rewind_wrong_data", r.detail());
		}
	}
	// deterministic keys: a second call commits to the same output and excess
	match reward::output(kc, &builder, &cb_id, fees, test_mode) {
		Ok((out2, kern2)) => {
			if out2.commitment() != out.commitment() || kern2.excess != kern.excess {
				cb_fail("deterministic_commitment", "two reward::output calls gave different commitment / excess".into());
			}
			if test_mode {
				if kern2.excess_sig == kern.excess_sig {
					run.count("D.reward.test_mode_sig_equal", 1);
				} else {
					run.count("D.reward.test_mode_sig_differs", 1);
				}
			}
		}
		Err(e) => cb_fail("second_call", format!("{:?}", e)),
	}
	drop(cb_fail);
	if cb_ok {
		run.count(&format!("D.reward.ok.test_mode_{}", test_mode), 1);
	}

	// ---- a block made of the reward (and the transactions whose fees it claims)
	if !all_ok {
		return;
	}
	let mut prev = BlockHeader::default();
	if let Some(o) = &prev_offset {
		prev.total_kernel_offset = bf_of(o);
	}
	// lock heights were chosen <= 1 = height of the block
	run.eval(&format!("D;block;txs={};prev_offset={};b={}", txs.len(), prev_offset.is_some(), b), true);
	let block = match Block::from_reward(&prev, &txs, out, kern, Difficulty::min_dma()) {
		Ok(bl) => bl,
		Err(e) => {
			run.violation(
				&format!("check=block_from_reward;builder={};got=err:{}", b, err_kind(&e)),
				&format!("Block::from_reward failed: {:?}", e),
				replay.clone(),
			);
			return;
		}
	};
	match block.verify_coinbase() {
		Ok(()) => run.count("D.block.verify_coinbase_ok", 1),
		Err(e) => run.violation(
			&format!("check=block_verify_coinbase;builder={};got=err:{}", b, err_kind(&e)),
			&format!("verify_coinbase failed on a block made of builder txs + reward: {:?}", e),
			replay.clone(),
		),
	}
	match block.validate(&prev.total_kernel_offset) {
		Ok(()) => {
			run.count("D.block.validated", 1);
			if txs.is_empty() {
				run.count("D.block.validated.reward_only", 1);
			}
		}
		Err(e) => run.violation(
			&format!("check=block_validate;builder={};got=err:{}", b, err_kind(&e)),
			&format!("block.validate failed: {:?}", e),
			replay.clone(),
		),
	}
	if idx % 61 == 3 {
		ctx.sample("builder", 1, replay.clone());
	}
}

fn phase_d(ctx: &Ctx) {
	let deadline = Instant::now() + Duration::from_secs(ctx.budget.d_secs);
	let work = |i: usize| {
		if let Err(rep) = monitor::catch(|| builder_case(ctx, i)) {
			ctx.panic_violation("builder", "tx_reward_block", &rep, json!({"phase": "builder", "index": i}));
		}
	};
	let n = ctx.budget.d_cases;
	let done = match ctx.only_idx("builder") {
		Some(i) => {
			init_thread(false);
			work(i);
			1
		}
		None => par_for(n, ctx.threads, deadline, work),
	};
	ctx.run.count("D.cases_done", done as u64);
	if done < n && ctx.only.is_none() {
		ctx.run.inconclusive(&format!("phase D time cap: {} of {} cases", done, n));
	}
}

// ------------------------------------------------------------------ phase E: aggsig / Keychain::sign

fn aggsig_case(ctx: &Ctx, idx: usize) {
	let run = ctx.run;
	let mut p = case_prng(run.seed, 0xE0, idx as u64);
	let seed_idx = p.usize_below(ctx.kcs.len());
	let kc = &ctx.kcs[seed_idx];
	let depth = (idx % 5) as u8;
	let path = gen_path(&mut p, depth, false);
	let id = path.id();
	let amt_cls = (idx / 5) % 6;
	let value = amount_of(amt_cls, &mut p);
	let mut m = [0u8; 32];
	match p.below(8) {
		0 => {}
		1 => m = [0xff; 32],
		_ => p.fill(&mut m),
	}
	let use_static = idx % 8 == 7;
	let with_nonce = p.bool();
	let replay = json!({"phase": "aggsig", "index": idx, "seed": ctx.seed_json(seed_idx), "path": path.json(),
		"value": value, "msg": hex(&m), "static_secp": use_static, "explicit_nonce": with_nonce});
	let shape = format!(
		"E;d={};cls={};amt={};secp={};nonce={}",
		path.depth,
		path.cls(),
		AMT_CLASSES[amt_cls],
		if use_static { "static" } else { "keychain" },
		with_nonce
	);
	let msg = match Message::from_slice(&m) {
		Ok(m) => m,
		Err(_) => return,
	};
	let sw = SwitchCommitmentType::Regular;
	let (skey, commit) = match (kc.derive_key(value, &id, sw), kc.commit(value, &id, sw)) {
		(Ok(k), Ok(c)) => (k, c),
		_ => {
			run.count("E.derive_err_skipped", 1);
			return;
		}
	};
	let other_commit = kc.commit(0, &ExtKeychain::derive_key_id(2, 77, idx as u32, 0, 0), sw).ok();
	// Keychain::sign (ECDSA) with the derived key, both modes
	for sw in [SwitchCommitmentType::Regular, SwitchCommitmentType::None] {
		if let (Ok(sig), Ok(k)) = (kc.sign(&msg, value, &id, sw), kc.derive_key(value, &id, sw)) {
			if let Ok(pk) = PublicKey::from_secret_key(kc.secp(), &k) {
				match kc.secp().verify(&msg, &sig, &pk) {
					Ok(()) => run.count("E.keychain_sign_verify.ok", 1),
					Err(e) => run.violation(
						&format!("check=keychain_sign;switch={}", sw_name(sw)),
						&format!("Keychain::sign signature does not verify under the derived key: {:?}", e),
						replay.clone(),
					),
				}
			}
		}
	}
	// the process-wide static context (as reward.rs uses it) is a global lock: taken late, on 1/8 of the cases
	let static_secp;
	let guard;
	let secp: &Secp256k1 = if use_static {
		static_secp = static_secp_instance();
		guard = static_secp.lock();
		&guard
	} else {
		kc.secp()
	};
	let fail = |clause: &str, what: String| {
		run.violation(&format!("check=aggsig;clause={}", clause), &what, replay.clone());
	};
	let pubkey = match PublicKey::from_secret_key(secp, &skey) {
		Ok(p) => p,
		Err(_) => return,
	};
	// excess = commit - value*H must be the public key of the derived key
	let excess = if value == 0 {
		commit
	} else {
		match secp.commit_value(value).and_then(|ov| secp.commit_sum(vec![commit], vec![ov])) {
			Ok(e) => e,
			Err(e) => {
				fail("excess_commit_sum", format!("{:?}", e));
				return;
			}
		}
	};
	match excess.to_pubkey(secp) {
		Ok(pk) if pk == pubkey => {}
		other => {
			fail("excess_is_pubkey_of_derived_key", format!("{:?}", other.is_ok()));
			return;
		}
	}
	run.eval(&shape, true);
	let nonce = if with_nonce { SecretKey::from_slice(secp, &u_to_be(&gen_scalar(&mut p))).ok() } else { None };

	// signature bound to the public key sum (as for coinbase kernels)
	match aggsig::sign_from_key_id(secp, kc, &msg, value, &id, nonce.as_ref(), Some(&pubkey)) {
		Err(e) => fail("sign_from_key_id", format!("{:?}", e)),
		Ok(sig) => {
			let a = aggsig::verify_single_from_commit(secp, &sig, &msg, &excess);
			let b = aggsig::verify_completed_sig(secp, &sig, &pubkey, Some(&pubkey), &msg);
			if a.is_ok() && b.is_ok() {
				run.count("E.sign_verify.with_pubkey_sum.ok", 1);
			} else {
				fail(
					"verify_with_pubkey_sum",
					format!("verify_single_from_commit={:?} verify_completed_sig={:?}", a, b),
				);
			}
			// sanity of the verifier: other message / other key must be refused
			let mut m2 = m;
			m2[p.usize_below(32)] ^= 1 << p.below(8);
			if let Ok(msg2) = Message::from_slice(&m2) {
				if aggsig::verify_single_from_commit(secp, &sig, &msg2, &excess).is_err() {
					run.count("E.sanity.other_msg_rejected", 1);
				} else {
					run.count("E.sanity.other_msg_accepted", 1);
				}
			}
			if let Some(oc) = other_commit {
				if aggsig::verify_single_from_commit(secp, &sig, &msg, &oc).is_err() {
					run.count("E.sanity.other_key_rejected", 1);
				} else {
					run.count("E.sanity.other_key_accepted", 1);
				}
			}
		}
	}
	// signature without a public key sum
	match aggsig::sign_from_key_id(secp, kc, &msg, value, &id, nonce.as_ref(), None) {
		Err(e) => fail("sign_from_key_id_no_sum", format!("{:?}", e)),
		Ok(sig) => match aggsig::verify_completed_sig(secp, &sig, &pubkey, None, &msg) {
			Ok(()) => run.count("E.sign_verify.no_pubkey_sum.ok", 1),
			Err(e) => fail("verify_no_pubkey_sum", format!("{:?}", e)),
		},
	}
}

fn phase_e(ctx: &Ctx) {
	let deadline = Instant::now() + Duration::from_secs(ctx.budget.e_secs);
	let work = |i: usize| {
		if let Err(rep) = monitor::catch(|| aggsig_case(ctx, i)) {
			ctx.panic_violation("aggsig", "sign_verify", &rep, json!({"phase": "aggsig", "index": i}));
		}
	};
	let n = ctx.budget.e_cases;
	let done = match ctx.only_idx("aggsig") {
		Some(i) => {
			init_thread(false);
			work(i);
			1
		}
		None => par_for(n, ctx.threads, deadline, work),
	};
	ctx.run.count("E.cases_done", done as u64);
	if done < n && ctx.only.is_none() {
		ctx.run.inconclusive(&format!("phase E time cap: {} of {} cases", done, n));
	}
}

// ------------------------------------------------------------------ phase G: several signers, one kernel

/// The builder route wallets actually take (`build::transaction` is the single-signer convenience): every party adds
/// its inputs / outputs to the same transaction through `build::partial_transaction` with its own keychain, keeps its
/// blinding sum as its share of the kernel excess (the first party moves a part of its share into the offset), and the
/// kernel is signed jointly: `aggsig::calculate_partial_sig` per party over the summed public nonce and the summed public
/// excess, `verify_partial_sig` on each share, `add_signatures`. Valid by construction, so: every share verifies under its
/// own public key (and not under another party's), the sum of the shares is a completed signature under the summed key,
/// the kernel verifies, the transaction validates, and the order in which the shares are added does not matter.
fn multiparty_case(ctx: &Ctx, idx: usize) {
	let run = ctx.run;
	let mut p = case_prng(run.seed, 0x60, idx as u64);
	let n_parties = 2 + (idx % 3 == 2) as usize;
	let legacy_party = if idx % 4 == 3 { Some(p.usize_below(n_parties)) } else { None };
	let first_seed = p.usize_below(ctx.kcs.len());
	let mut used = HashSet::new();
	let plan = gen_tx_plan(&mut p, &mut used, legacy_party.is_some());
	// element -> party; at least two parties contribute something
	let n_elems = plan.ins.len() + plan.outs.len();
	if n_elems < 2 {
		run.count("G.skipped.single_element_plan", 1);
		return;
	}
	let mut owner: Vec<usize> = (0..n_elems).map(|_| p.usize_below(n_parties)).collect();
	owner[0] = 0;
	owner[n_elems - 1] = 1;
	if n_parties == 3 && n_elems >= 3 {
		owner[1] = 2;
	}
	let offset_u = match p.below(4) {
		0 => U_ZERO,
		_ => gen_scalar(&mut p),
	};
	let nonces_u: Vec<U256> = (0..n_parties).map(|_| gen_scalar(&mut p)).collect();
	let replay = json!({"phase": "multiparty", "index": idx, "parties": n_parties, "first_seed": ctx.seed_json(first_seed),
		"legacy_party": legacy_party, "tx": plan.json(), "owner_of_element": owner, "offset": hex(&u_to_be(&offset_u)),
		"nonces": nonces_u.iter().map(|x| hex(&u_to_be(x))).collect::<Vec<_>>()});
	let shape = format!(
		"G;parties={};{};legacy_party={};offset={}",
		n_parties,
		plan.shape(),
		legacy_party.is_some(),
		if offset_u == U_ZERO { "zero" } else { "nonzero" }
	);
	let fail = |clause: &str, what: String| {
		run.violation(&format!("check=multiparty;clause={}", clause), &what, replay.clone());
	};

	let secp_owner = &ctx.kcs[first_seed];
	let secp = secp_owner.secp();
	let mut tx = Transaction::empty();
	let mut shares: Vec<BlindingFactor> = vec![];
	let mut contributing = 0;
	for party in 0..n_parties {
		let kc = &ctx.kcs[(first_seed + party) % ctx.kcs.len()];
		let kind = if legacy_party == Some(party) { BKind::Legacy } else { BKind::New };
		let builder = AnyBuilder::new(kind, kc);
		let mut elems: Vec<Box<build::Append<ExtKeychain, AnyBuilder>>> = vec![];
		for (k, (v, path, cb)) in plan.ins.iter().enumerate() {
			if owner[k] == party {
				elems.push(if *cb { build::coinbase_input(*v, path.id()) } else { build::input(*v, path.id()) });
			}
		}
		for (k, (v, path)) in plan.outs.iter().enumerate() {
			if owner[plan.ins.len() + k] == party {
				elems.push(build::output(*v, path.id()));
			}
		}
		if elems.is_empty() {
			continue;
		}
		contributing += 1;
		p.shuffle(&mut elems);
		match build::partial_transaction(tx.clone(), &elems, kc, &builder) {
			Ok((t, bf)) => {
				tx = t;
				shares.push(bf);
			}
			Err(e) => {
				// a party whose own keys cancel out has no excess share (documented zero handling of blind_sum)
				if err_kind(&e).contains("InvalidSecretKey") {
					run.count("G.skipped.zero_share", 1);
				} else {
					fail("partial_transaction", format!("party {}: {:?}", party, e));
				}
				return;
			}
		}
	}
	if contributing < 2 {
		run.count("G.skipped.one_contributing_party", 1);
		return;
	}
	// the first party moves `offset` out of its share
	let offset = bf_of(&offset_u);
	if offset_u != U_ZERO {
		match shares[0].split(&offset, secp) {
			Ok(rest) => shares[0] = rest,
			Err(_) => {
				run.count("G.skipped.zero_share", 1);
				return;
			}
		}
	}
	let mut sks = vec![];
	let mut pks = vec![];
	let mut excesses = vec![];
	for sh in &shares {
		let sk = match sh.secret_key(secp) {
			Ok(k) => k,
			Err(_) => {
				run.count("G.skipped.zero_share", 1);
				return;
			}
		};
		match (PublicKey::from_secret_key(secp, &sk), secp.commit(0, sk.clone())) {
			(Ok(pk), Ok(c)) => {
				pks.push(pk);
				excesses.push(c);
			}
			_ => return,
		}
		sks.push(sk);
	}
	let mut nonces = vec![];
	let mut pub_nonces = vec![];
	for u in nonces_u.iter().take(sks.len()) {
		let k = match SecretKey::from_slice(secp, &u_to_be(u)) {
			Ok(k) => k,
			Err(_) => return,
		};
		match PublicKey::from_secret_key(secp, &k) {
			Ok(pk) => pub_nonces.push(pk),
			Err(_) => return,
		}
		nonces.push(k);
	}
	let (pubkey_sum, nonce_sum) = match (
		PublicKey::from_combination(secp, pks.iter().collect()),
		PublicKey::from_combination(secp, pub_nonces.iter().collect()),
	) {
		(Ok(a), Ok(b)) => (a, b),
		_ => {
			run.count("G.skipped.keys_or_nonces_cancel", 1);
			return;
		}
	};
	run.eval(&shape, true);
	let mut kernel = grin_core::core::TxKernel::with_features(plan.features());
	let msg = match kernel.msg_to_sign() {
		Ok(m) => m,
		Err(e) => {
			fail("msg_to_sign", format!("{:?}", e));
			return;
		}
	};
	let mut parts = vec![];
	for i in 0..sks.len() {
		match aggsig::calculate_partial_sig(secp, &sks[i], &nonces[i], &nonce_sum, Some(&pubkey_sum), &msg) {
			Ok(sig) => parts.push(sig),
			Err(e) => {
				fail("calculate_partial_sig", format!("party {}: {:?}", i, e));
				return;
			}
		}
	}
	for i in 0..parts.len() {
		match aggsig::verify_partial_sig(secp, &parts[i], &nonce_sum, &pks[i], Some(&pubkey_sum), &msg) {
			Ok(()) => run.count("G.partial_sig_verified", 1),
			Err(e) => fail("verify_partial_sig", format!("share of party {} does not verify under its own key: {:?}", i, e)),
		}
		let j = (i + 1) % parts.len();
		if aggsig::verify_partial_sig(secp, &parts[i], &nonce_sum, &pks[j], Some(&pubkey_sum), &msg).is_err() {
			run.count("G.sanity.share_refused_under_another_key", 1);
		} else {
			run.count("G.sanity.share_accepted_under_another_key", 1);
		}
	}
	let fin = match aggsig::add_signatures(secp, parts.iter().collect(), &nonce_sum) {
		Ok(s) => s,
		Err(e) => {
			fail("add_signatures", format!("{:?}", e));
			return;
		}
	};
	{
		let mut rev: Vec<&grin_util::secp::Signature> = parts.iter().collect();
		rev.reverse();
		match aggsig::add_signatures(secp, rev, &nonce_sum) {
			Ok(s2) if s2 == fin => run.count("G.add_signatures_order_independent", 1),
			other => fail("add_signatures_order", format!("shares added in reverse order give another result: {:?}", other.is_ok())),
		}
	}
	match aggsig::verify_completed_sig(secp, &fin, &pubkey_sum, Some(&pubkey_sum), &msg) {
		Ok(()) => run.count("G.completed_sig_verified", 1),
		Err(e) => fail("verify_completed_sig", format!("sum of {} verified shares is not a signature under the summed key: {:?}", parts.len(), e)),
	}
	let excess = match secp.commit_sum(excesses.clone(), vec![]) {
		Ok(c) => c,
		Err(e) => {
			fail("excess_commit_sum", format!("{:?}", e));
			return;
		}
	};
	match excess.to_pubkey(secp) {
		Ok(pk) if pk == pubkey_sum => {}
		_ => fail("excess_is_summed_key", "sum of the parties' excess commitments is not the summed public key".into()),
	}
	kernel.excess = excess;
	kernel.excess_sig = fin;
	match kernel.verify() {
		Ok(()) => run.count("G.kernel_verified", 1),
		Err(e) => fail("kernel_verify", format!("jointly signed kernel does not verify: {:?}", e)),
	}
	let mut tx = tx.replace_kernel(kernel);
	tx.offset = offset;
	match tx.validate(Weighting::AsTransaction) {
		Ok(()) => run.count("G.tx_validated", 1),
		Err(e) => fail("tx_validate", format!("jointly built transaction does not validate: {:?}", e)),
	}
	if tx.fee() != plan.fee || tx.outputs().len() != plan.outs.len() || tx.inputs().len() != plan.ins.len() {
		fail("tx_shape", format!("fee {} / {} outputs / {} inputs", tx.fee(), tx.outputs().len(), tx.inputs().len()));
	}
	run.count(&format!("G.cases.parties_{}", parts.len()), 1);
	if idx % 37 == 5 {
		ctx.sample("multiparty", 1, replay.clone());
	}
}

fn phase_g(ctx: &Ctx) {
	let n = (ctx.budget.d_cases / 2).max(24);
	let deadline = Instant::now() + Duration::from_secs(ctx.budget.d_secs);
	let work = |i: usize| {
		if let Err(rep) = monitor::catch(|| multiparty_case(ctx, i)) {
			ctx.panic_violation("multiparty", "partial_transaction_aggsig", &rep, json!({"phase": "multiparty", "index": i}));
		}
	};
	let done = match ctx.only_idx("multiparty") {
		Some(i) => {
			init_thread(false);
			work(i);
			1
		}
		None => par_for(n, ctx.threads, deadline, work),
	};
	ctx.run.count("G.cases_done", done as u64);
	if done < n && ctx.only.is_none() {
		ctx.run.inconclusive(&format!("phase G time cap: {} of {} cases", done, n));
	}
}

// ------------------------------------------------------------------ phase F: the two derivation routes agree

/// BIP32 has two routes to the public key of a non-hardened child: derive the private child and take its public key, or
/// derive publicly from the parent's extended public key. Key derivation is deterministic only if both agree (view keys
/// and watch-only wallets live on the second route). For paths of depth 1-4 over normal children: the two routes, and
/// `ExtKeychain::derive_key(.., SwitchCommitmentType::None)`, must give the same key; through a hardened child the public
/// route must refuse.
fn phase_f(ctx: &Ctx) {
	use grin_keychain::extkey_bip32::{BIP32GrinHasher, ChildNumber, ExtendedPrivKey, ExtendedPubKey};
	let run = ctx.run;
	let n_cases: usize = if ctx.only.is_some() { 0 } else { (ctx.budget.e_cases / 2).max(60) };
	for idx in 0..n_cases {
		let mut p = case_prng(run.seed, 0xF0, idx as u64);
		let seed_idx = p.usize_below(ctx.kcs.len());
		let kc = &ctx.kcs[seed_idx];
		let si = &ctx.seeds[seed_idx];
		let depth = 1 + (idx % 4) as u8;
		let with_hardened = idx % 5 == 4;
		let mut path = gen_path(&mut p, depth, true);
		let hard_at = p.usize_below(depth as usize);
		if with_hardened {
			path.d[hard_at] |= 0x8000_0000;
		}
		let replay = json!({"phase": "public_derivation", "index": idx, "seed": ctx.seed_json(seed_idx), "path": path.json()});
		let secp = kc.secp();
		let mut h = BIP32GrinHasher::new(si.is_test);
		let master = match ExtendedPrivKey::new_master(secp, &mut h, &si.bytes) {
			Ok(m) => m,
			Err(_) => continue,
		};
		let root_pub = ExtendedPubKey::from_private(secp, &master, &mut h);
		let cn: Vec<ChildNumber> = (0..depth as usize).map(|i| ChildNumber::from(path.d[i])).collect();
		let sk = match master.derive_priv(secp, &mut h, &cn) {
			Ok(k) => k,
			Err(_) => {
				run.count("F.private_derivation_err_skipped", 1);
				continue;
			}
		};
		let via_priv = ExtendedPubKey::from_private(secp, &sk, &mut h);
		run.eval(&format!("F;d={};cls={};hardened={}", depth, path.cls(), with_hardened), true);
		// the keychain walks the same private route
		match kc.derive_key(0, &path.id(), SwitchCommitmentType::None) {
			Ok(k) if k == sk.secret_key => run.count("F.keychain_key_is_the_bip32_private_child", 1),
			other => {
				run.violation(
					"check=public_derivation;clause=keychain_vs_bip32_private_route",
					&format!("ExtKeychain::derive_key(.., None) differs from ExtendedPrivKey::derive_priv over the same path (derive_key ok: {})", other.is_ok()),
					replay.clone(),
				);
				continue;
			}
		}
		match root_pub.derive_pub(secp, &mut h, &cn) {
			Ok(pk) => {
				if with_hardened {
					run.violation(
						"check=public_derivation;clause=hardened_child_derived_publicly",
						"ExtendedPubKey::derive_pub went through a hardened child",
						replay.clone(),
					);
				} else if pk.public_key != via_priv.public_key || pk.chain_code != via_priv.chain_code || pk.depth != via_priv.depth {
					run.violation(
						"check=public_derivation;clause=public_route_differs_from_private_route",
						&format!("public key / chain code derived publicly differ from those of the privately derived child at depth {}", depth),
						replay.clone(),
					);
				} else {
					run.count("F.public_route_equals_private_route", 1);
				}
			}
			Err(_) if with_hardened => run.count("F.hardened_child_refused_on_the_public_route", 1),
			Err(e) => run.violation(
				"check=public_derivation;clause=public_route_fails",
				&format!("ExtendedPubKey::derive_pub failed over normal children: {:?}", e),
				replay.clone(),
			),
		}
	}
}

// ------------------------------------------------------------------ minimum observations

fn requirements(ctx: &Ctx) {
	let run = ctx.run;
	let b = ctx.budget;
	let c = |n: &str| run.counter(n);
	run.require("F: public derivation route equals the private one", c("F.public_route_equals_private_route"), (b.e_cases as u64 / 2).max(60) / 2);
	run.require("F: hardened child refused on the public route", c("F.hardened_child_refused_on_the_public_route"), 5);
	let g = (b.d_cases as u64 / 2).max(24);
	run.require("G: jointly signed kernels verified", c("G.kernel_verified"), g / 3);
	run.require("G: jointly built transactions validated", c("G.tx_validated"), g / 3);
	run.require("G: shares refused under another party's key (oracle not vacuous)", c("G.sanity.share_refused_under_another_key"), g / 3);
	run.require("G: shares accepted under another party's key must be 0", if c("G.sanity.share_accepted_under_another_key") == 0 { 1 } else { 0 }, 1);
	// A
	let a_planned = (b.a_seeds as u64) * c("A.paths") * 12;
	run.require("A: (seed,path,amount,mode) determinism cases", c("A.cases"), a_planned * 6 / 10);
	run.require("A: distinct commitments observed", c("A.distinct_commitments"), a_planned * 6 / 10);
	// B: every (builder x switch) combination the code supports
	let per = (b.b_cases as u64) / 16;
	for (bk, sw) in [("ProofBuilder", "Regular"), ("ProofBuilder", "None"), ("LegacyProofBuilder", "Regular"), ("LegacyProofBuilder", "None")] {
		run.require(&format!("B: proofs created and verified, {} x {}", bk, sw), c(&format!("B.verified.{}.{}", bk, sw)), per / 2);
	}
	for (bk, sw) in [("ProofBuilder", "Regular"), ("ProofBuilder", "None"), ("LegacyProofBuilder", "Regular")] {
		run.require(
			&format!("B: same-seed rewind exact, {} x {}", bk, sw),
			c(&format!("B.rewind_same_seed.exact.{}.{}", bk, sw)),
			per / 2,
		);
		run.require(
			&format!("B: fresh-keychain rewind exact, {} x {}", bk, sw),
			c(&format!("B.rewind_fresh_keychain.exact.{}.{}", bk, sw)),
			per / 8,
		);
	}
	run.require(
		"B: wrong-seed rewinds returning nothing",
		c("B.rewind_other_seed.nothing") + c("B.rewind_other_seed.err_nothing"),
		b.b_cases as u64,
	);
	run.require("B: matching view key recovered exactly (switch None)", c("B.viewkey.matching.exact.None"), per / 2);
	run.require(
		"B: other-seed view key recovered nothing",
		c("B.viewkey.other_seed.nothing") + c("B.viewkey.other_seed.err_nothing"),
		per,
	);
	run.require("B: verifier refuses another commitment (oracle not vacuous)", c("B.sanity.verify_rejects_other_commit"), per);
	run.require("B: verifier accepting another commitment must be 0", if c("B.sanity.verify_accepts_other_commit") == 0 { 1 } else { 0 }, 1);
	// C
	let q = (b.c_cases as u64) / 4;
	run.require("C: split cases", c("C.split.cases"), q / 2);
	run.require("C: order cases", c("C.order.cases"), q / 2);
	run.require("C: add/sub cases", c("C.addsub.cases"), q / 2);
	run.require("C: zero cases", c("C.zero.cases"), q / 2);
	run.require("C: permuted sums equal", c("C.sum_order.permutation_equal"), q);
	// D
	let d = b.d_cases as u64;
	run.require("D: builder transactions validated", c("D.tx.validated"), d / 3);
	run.require("D: kernel signatures verified", c("D.tx.kernel_sig_verified"), d / 3);
	run.require("D: reward outputs ok (random nonce)", c("D.reward.ok.test_mode_false"), d / 8);
	run.require("D: reward outputs ok (test nonce)", c("D.reward.ok.test_mode_true"), d / 8);
	run.require("D: blocks validated", c("D.block.validated"), d / 3);
	run.require("D: reward-only blocks validated", c("D.block.validated.reward_only"), d / 60);
	// E
	let e = b.e_cases as u64;
	run.require("E: aggsig round trips (pubkey sum)", c("E.sign_verify.with_pubkey_sum.ok"), e / 2);
	run.require("E: aggsig round trips (no pubkey sum)", c("E.sign_verify.no_pubkey_sum.ok"), e / 2);
	run.require("E: tampered message refused", c("E.sanity.other_msg_rejected"), e / 2);
	run.require("E: tampered message accepted must be 0", if c("E.sanity.other_msg_accepted") == 0 { 1 } else { 0 }, 1);
}

fn main() {
	let run = Run::from_env("C20", "exploration");
	init_globals(false);
	monitor::install_panic_hook();

	let san = run.args.iter().any(|a| a == "--san") || std::env::var("VERIF_SAN").is_ok();
	// Sizes follow measured CPU costs (one BIP32 level ~1.5 ms because every ckd_priv builds a
	// secp context for the fingerprint, from_seed ~20 ms, proof creation ~50 ms): quick ~550
	// core-seconds, thorough ~5000 core-seconds, spread over up to 16 threads.
	let mut budget = run.tier.pick(
		Budget {
			a_seeds: 4,
			a_random_paths: 40,
			a_boundary_depth: 2,
			a_boundary_samples: 28,
			b_cases: 1500,
			c_cases: 16_000,
			d_cases: 240,
			e_cases: 1000,
			a_secs: 66,
			b_secs: 96,
			c_secs: 24,
			d_secs: 54,
			e_secs: 24,
		},
		Budget {
			a_seeds: 8,
			a_random_paths: 200,
			a_boundary_depth: 3,
			a_boundary_samples: 80,
			b_cases: 18_000,
			c_cases: 100_000,
			d_cases: 3300,
			e_cases: 8000,
			a_secs: 300,
			b_secs: 660,
			c_secs: 60,
			d_secs: 280,
			e_secs: 80,
		},
	);
	if san {
		budget = Budget {
			a_seeds: 1,
			a_random_paths: 5,
			a_boundary_depth: 1,
			a_boundary_samples: 6,
			b_cases: 180,
			c_cases: 2400,
			d_cases: 32,
			e_cases: 150,
			a_secs: 300,
			b_secs: 900,
			c_secs: 120,
			d_secs: 600,
			e_secs: 120,
		};
	}
	// test knob: stretch the wall-clock caps on a loaded machine (never set by ./check)
	if let Some(f) = std::env::var("C20_TIME_SCALE").ok().and_then(|v| v.parse::<u64>().ok()) {
		let f = f.max(1);
		budget.a_secs *= f;
		budget.b_secs *= f;
		budget.c_secs *= f;
		budget.d_secs *= f;
		budget.e_secs *= f;
	}

	let threads = std::thread::available_parallelism()
		.map(|n| n.get())
		.unwrap_or(8)
		.min(16);

	// replay: run only the recorded case (same seed / tier come from the replay file)
	let mut only = None;
	if let Some(p) = &run.replay {
		if let Ok(s) = std::fs::read_to_string(p) {
			if let Ok(v) = serde_json::from_str::<Value>(&s) {
				let ph = v["case"]["phase"].as_str().map(|s| s.to_string());
				let ix = v["case"]["index"].as_u64();
				if let (Some(ph), Some(ix)) = (ph, ix) {
					only = Some((ph, ix as usize));
				}
			}
		}
	}

	let seeds = make_seeds(run.seed);
	{
		let mut uniq = HashSet::new();
		for s in &seeds {
			assert!(uniq.insert(s.bytes.clone()), "harness: duplicate seed generated");
		}
	}
	let kcs: Vec<ExtKeychain> = seeds
		.iter()
		.map(|s| ExtKeychain::from_seed(&s.bytes, s.is_test).expect("from_seed"))
		.collect();

	let ctx = Ctx {
		run: &run,
		seeds: &seeds,
		kcs: &kcs,
		budget,
		threads,
		only,
		samples: Mutex::new(HashMap::new()),
	};

	run.set_rule(
		"Cases are generated from (--seed, phase, index). A: every seed of the tier x (all paths over child numbers \
		 {0,1,2^31-1,2^31,u32::MAX} up to depth 2 (quick) / 3 (thorough) + sampled deeper boundary paths + random paths + \
		 neighbours of listed paths differing in one component or one level) x amounts {0,1,2^32,2^63,2^64-1,random} x {Regular,None}: \
		 derive_key/commit twice on one keychain and on a second from_seed(same seed), all commitments/keys of distinct \
		 inputs pairwise distinct. B: stratified (depth, amount class, switch, builder) + random seed/path: proof::create -> \
		 verify -> rewind with same builder, with a builder over a fresh keychain of the same seed, with builders of another \
		 seed (incl. 1-bit neighbour), with root/child view keys. C: random and boundary scalars (1,2,n-1,n-2,2^255,zero): \
		 split/add/blind_sum/secp.blind_sum vs an own mod-n reference, permutations, add-then-subtract. D: random multisets \
		 (1-4 inputs incl. coinbase inputs, 0-3 outputs, fee) through build::transaction, reward::output, Block::from_reward. \
		 E: aggsig sign/verify round trips. G: the same multisets split over 2-3 parties with a keychain each \
		 (partial_transaction per party, offset taken from the first party's share, calculate_partial_sig / verify_partial_sig / \
		 add_signatures over PRNG nonces): kernel.verify, Transaction::validate. A case signature is (phase, path depth, child-number class string, amount class, \
		 switch, builder, check kind); it is non-trivial when the operation under test actually ran (proof created, tx built, \
		 sum computed) - cases skipped because creation failed are counted separately and are not evaluations.",
	);
	run.assume("secp256k1-zkp (commit, bullet proofs, blind_switch, aggsig) and the hash primitives are trusted");
	run.assume("LegacyProofBuilder round trip is asserted only inside its documented domain (depth-3 path, Regular switch); outside it only 'never returns wrong data'");
	run.assume("a view key 'matches' an output when it was created from the same keychain at a prefix node of the output's path and all remaining path components are non-hardened (BIP32 public derivation)");
	run.assume("sums that are 0 mod n may be reported as Err(InvalidSecretKey) or as the zero blinding factor (documented zero handling)");

	// every seed of the run is a different wallet: the key and the commitment of one fixed (amount, path) are pairwise
	// distinct over all of them (1, 16, 31, 32, 64, 65 and 128 byte seeds, 1-bit neighbours, a shared 64-byte prefix)
	if ctx.only.is_none() {
		init_thread(false);
		let id = ExtKeychain::derive_key_id(2, 1, 7, 0, 0);
		let mut seen: HashMap<Vec<u8>, usize> = HashMap::new();
		for (i, kc) in kcs.iter().enumerate() {
			for sw in [SwitchCommitmentType::Regular, SwitchCommitmentType::None] {
				if let (Ok(k), Ok(c)) = (kc.derive_key(5, &id, sw), kc.commit(5, &id, sw)) {
					for (tag, bytes) in [("key", k.0.to_vec()), ("commit", c.0.to_vec())] {
						let mut key = vec![tag.as_bytes()[0], sw as u8];
						key.extend(bytes);
						if let Some(j) = seen.insert(key, i) {
							if j != i {
								run.violation(
									&format!("check=seeds_give_distinct_wallets;what={};seeds={}/{}", tag, seeds[j].kind, seeds[i].kind),
									&format!("two different seeds ({} bytes '{}' and {} bytes '{}') derive the same {} for (5, m/1/7, {})",
										seeds[j].bytes.len(), seeds[j].kind, seeds[i].bytes.len(), seeds[i].kind, tag, sw_name(sw)),
									json!({"phase": "seeds", "seed_a": ctx.seed_json(j), "seed_b": ctx.seed_json(i)}),
								);
							}
						}
					}
					run.count("S.seed_keys_and_commitments_compared", 1);
				}
			}
		}
		run.eval("S;seed_distinctness", true);
	}
	let t0 = Instant::now();
	if ctx.wants("determinism") {
		phase_a(&ctx);
	}
	let ta = t0.elapsed().as_secs_f64();
	if ctx.wants("proof") {
		phase_b(&ctx);
	}
	let tb = t0.elapsed().as_secs_f64();
	if ctx.wants("blind") {
		phase_c(&ctx);
	}
	let tc = t0.elapsed().as_secs_f64();
	if ctx.wants("builder") {
		phase_d(&ctx);
	}
	let td = t0.elapsed().as_secs_f64();
	if ctx.wants("aggsig") {
		phase_e(&ctx);
	}
	if ctx.only.is_none() {
		init_thread(false);
		phase_f(&ctx);
	}
	let te = t0.elapsed().as_secs_f64();
	if ctx.wants("multiparty") {
		phase_g(&ctx);
	}
	let tg = t0.elapsed().as_secs_f64();
	run.extra(
		"phase_wall_s",
		json!({"A_determinism": ta, "B_proofs": tb - ta, "C_blinding": tc - tb, "D_builder": td - tc, "E_aggsig": te - td, "G_multiparty": tg - te}),
	);
	run.extra("threads", json!(threads));
	run.extra("sanitizer_workload", json!(san));

	if ctx.only.is_none() {
		requirements(&ctx);
	}
	run.finish();
}
