#!/bin/bash
# tools/proc.sh <root> <suffix> <slot> <ID> [<ID> ...]: collect, confirm and selftest seeded changes (crate / demo from meta.json)
ROOT=$1; SFX=$2; SLOT=$3; shift 3
for ID in "$@"; do
  M=$ROOT/$ID/seed_out/meta.json
  CRATE=$(python3 -c "import json;print(json.load(open('$M')).get('crate','grin_chain'))")
  DEMO=$(python3 -c "import json;print(json.load(open('$M')).get('demo_file',''))")
  [ -z "$DEMO" ] && DEMO=$(ls $ROOT/$ID/seed_out/demo | head -1)
  echo "=== $ID $CRATE $DEMO"
  SELFTEST_SLOT=$SLOT CONFIRM_TARGET=/tmp/seed/target-confirm-$SLOT SEED_ROOT=$ROOT SEED_SUFFIX=$SFX SEED_LINES=12 bash /verif/tools/process_seed.sh $ID $CRATE $DEMO
done
