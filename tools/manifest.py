#!/usr/bin/env python3
"""Regenerate /verif/MANIFEST.json from the table below (only READY properties are claimed)."""
import json, subprocess, sys

HOOK_COMMITS = subprocess.run(
    ["git", "-C", "/repo", "log", "--format=%H %s", "--grep=^verif hook"],
    stdout=subprocess.PIPE, text=True).stdout.strip().splitlines()

# id -> dict(level, text, note, technique, design_ref)
READY = {}

def reg(pid, level, technique, text, note):
    READY[pid] = dict(level=level, technique=technique, text=text, note=note)

reg("C02", "exploration",
    "reference-model monitor (independent ledger replay) over random fork-tree histories + forged single-rule-violation blocks",
    "Executes random fork-tree histories (spends in every placement class, re-created commitments, reorgs in both directions, reopen, "
    "compaction on long histories) against the real Chain; after every delivery an independent replay-from-genesis ledger (plain "
    "bookkeeping + MMR-by-definition + from-scratch bitmap) judges accept/reject, head, the full unspent set through both access paths, "
    "roots and sizes. Invalid blocks (double spend, never-created, fork-foreign, duplicate unspent commitment) are forged with "
    "reference-computed header commitments so that the UTXO rule is the only thing wrong. Held on K executions, never 'verified'.",
    "Trusted base: secp256k1-zkp, blake2b, the harness's reference ledger. SKIP_POW delivery (PoW/difficulty rules are C04). "
    "Forks deeper than the compaction horizon are out of scope by the statement.")

reg("C01", "exploration",
    "validity-by-construction oracle (openings known to the harness, independent bookkeeping) + single-field corruption operators + running-sum recomputation over chain histories",
    "Valid transactions/blocks are assembled from openings the harness knows and re-checked by plain integer / curve bookkeeping; every "
    "corruption operator (amount, fee, offset, dropped/duplicated/foreign kernel, swapped proofs or signatures, replaced input, forged "
    "coinbase value or flag, over-claim with compensating burn) changes exactly one thing and must be refused by Transaction::validate / "
    "Block::validate / Chain::process_block; over fork-tree histories the stored running sums of every head are compared with sums "
    "recomputed from the replayed full state and the full-state equation is evaluated after every accepted block.",
    "Trusted base: secp256k1-zkp (proofs, signatures, point arithmetic) and blake2b. Soundness of the cryptography itself is out of reach.")

reg("C03", "exploration",
    "event-log checker (HeadMove hook) + reference max-work oracle per delivery + cross-order final-state comparison (exhaustive permutations for small trees)",
    "For random fork trees (SKIP_POW with pairwise distinct totals, and real PoW) the same block set is delivered in many orders: every "
    "permutation for trees of <=5 blocks (after header batches), sampled orders of classes parent-first / headers-first / children before "
    "parents (orphan pool) / duplicates / interleaved for larger ones. Per delivery: every HeadMove event goes to strictly more work and to "
    "a stored accepted block, head == reference max-work connected block; per tree: final best-chain state digests equal across all orders "
    "and equal to a node fed the winning chain only and to the replayed reference.",
    "Orphan eviction by age and beyond-capacity floods are not exercised. Ties in total difficulty are excluded from the order-independence clause only.")

reg("C06", "exploration",
    "snapshot-diff monitor around every refused call + twin-node differential over fork-tree histories with staged hostile inputs",
    "A subject node and a twin process the same history; the subject additionally receives hostile inputs failing at every validation stage "
    "(read-time, header rules, body validation, immature coinbase, forged UTXO violations, late root/size mismatches after the block was "
    "applied to the working MMRs, on the head and on fork parents, broken header batches, refused transactions). Structural snapshots "
    "(head, roots, sizes, full unspent set by two access paths, block sums and spend records of best-chain blocks) must be identical before "
    "and after each refused call and for valid losing-fork blocks; subject and twin must answer every later delivery identically.",
    "A refused block whose header is itself valid may leave that header remembered (header_head): best-chain-only comparison in that case, as the statement allows.")

reg("C10", "exploration",
    "round-trip / re-encoding / hash-invariance monitors over generated values x protocol versions + canonical-form perturbations built with an independent reference encoder",
    "About a million value x version round trips per quick run over every consensus and wire type (two readers, exact consumption, field "
    "equality, identical re-encoding, identity hash equal across versions and equal to an independent v1 reference encoding), and ~100k "
    "invalid-by-construction encodings (unsorted/duplicate entries, reserved or padding bits, undefined tags, inconsistent counts) that must "
    "be refused by both readers.",
    "p2p messages without a reference encoder are only covered by the metamorphic relations. One recorded known finding (IPv4-mapped PeerAddr normalisation).")

reg("C04", "exploration",
    "construction-label oracle over single-field header mutants (re-mined, real PoW) through every entry point + u128 reference retarget over random/adversarial windows",
    "Real-PoW AutomatedTesting chains through all five header versions; every height gets ~45 single-field header mutants, re-mined when the "
    "field is part of the PoW pre-image so only the targeted rule is violated, delivered through process_block_header, sync_block_headers "
    "(bad header at position k of n), process_block and the untrusted reader; invalid ones must be refused without leaving a trace, valid "
    "ones accepted. next_difficulty is compared with an independent u128 reference (DMA, AR scaling, WTEMA) over millions of windows on all "
    "four chain types and eras: determinism, minimum, damp/clamp bounds, equality.",
    "Cuckaroo29 / Cuckatoo31+ headers cannot be mined here: mainnet/testnet acceptance is covered through the pure retarget, the version schedule and the reader only.")

reg("C07", "exploration",
    "reference-model monitor: explicit MMR node table built by definition vs position arithmetic, roots and Merkle proofs (exhaustive up to a bound)",
    "An explicit node table built from the definition answers every positional question by lookup; all 18 pure position functions are "
    "compared for EVERY position below 2^12 (quick) / 2^16 (thorough) leaves and for structured huge arguments against a u128 closed form; "
    "PMMR/ReadonlyPMMR/RewindablePMMR roots, peaks and sizes after every push and rewind; every leaf of every MMR up to 128 / 512 leaves gets "
    "its proof compared with the reference path and every single-field corruption (element, position, each path hash, shortened, "
    "lengthened) must fail.",
    "The advisory mmr_size field of a proof is not claimed. Trusted base: the hash primitive.")

reg("C11", "exploration",
    "panic / abort / allocation / hang monitors over structure-aware mutations of every decoder's valid encodings, in worker subprocesses",
    "690k (quick) / 3.2M (thorough) deterministic cases: every integer field of every seed encoding set to boundary and huge values, "
    "truncation at every offset, tag sweeps, splices, bit flips, random bytes, at protocol versions 1/2/3/1000, through 38 decoders incl. "
    "Codec::read over a socket and the stateless post-decode checks (validate_read, Segment::root/validate, BitmapSegment::into_segment). "
    "Per case: panic monitor with source location, tracking allocator (single request <= 16*len+2MiB, peak <= 64*len+8MiB, hard cap "
    "terminates the worker), watchdog; worker deaths are attributed by re-running the single case.",
    "API JSON layer is driven through from_hex directly. Slow-but-finite work below the 20 s case budget is not flagged.")

reg("C12", "exploration",
    "algebraic / metamorphic oracles (set arithmetic over commitments, own mod-n offset adder) over permutations and groupings; hydration differential",
    "Pools of valid transactions (independent, chains, diamonds, fan-outs, multi-kernel, all kernel variants, zero / cancelling offsets) are "
    "aggregated in every permutation (<=5 operands) and random groupings: result validates, kernels = union, offset = sum (own 256-bit "
    "adder), inputs/outputs = union minus exactly the matched pairs, order and grouping independent, deaggregate(agg, subset) == remainder "
    "(also when different kernels on both sides of the split are signed under one excess key); "
    "blocks built from them survive CompactBlock::from + hydrate_from in any grouping bit for bit (fresh nonces, own SipHash reference for short ids).",
    "Short-id collision handling and fee_shift != 0 are not exercised.")

reg("C13", "exploration",
    "reference-rule oracle (ledger arithmetic on the fork being extended) over scripted boundary scenarios on forks, reorgs, rewinds and the pool",
    "78 (rule x placement class x boundary offset) cells: coinbase maturity, lock heights and NRD relative locks at one below / at / one above "
    "the threshold, on a single chain, across fork points, on fork blocks re-applied during a reorg, after rewinds (A->B->A'), NRD duplicates "
    "across forks and inside one block, repeated 4-6 times with deep rewinds, and again after the chain was compacted above the first "
    "occurrence (and restarted); pool admission incl. with header_head on a competing fork and a pool kept through a reorg; every "
    "process_block / add_to_pool / validate_tx decision is compared with the rule evaluated by the reference ledger.",
    "AutomatedTesting parameters (maturity 3). Stempool interactions are C14's.")

reg("C19", "exploration",
    "sent-vs-received history comparison over every split point / multi-splits / dribble; refusal monitors (bytes consumed, allocation) at per-type limits; scripted handshake matrix",
    "Real Codec::read and conn::listen over loopback sockets: every single split point of short sequences covering every message type at four "
    "protocol versions, header lists of 1..512 headers with varying edge bits cut at every header boundary, attachments around the 48 000 byte "
    "chunking, unknown types, 5k-100k random sequences with delays, one 2.6 s silence (longer than the header timeout) inside each body in turn; refused frames (wrong magic, over-limit length per type, count vs length) "
    "must error having consumed <= 11 bytes and without allocating the announced size; handshake negotiates min(local, remote), refuses "
    "other genesis and self connections.",
    "Silences inside the 11 header bytes stay far below the 2 s header timeout, silences inside bodies below the 60 s body timeout (premise of the property). One recorded known finding (under-counted item lists are accepted).")

reg("C08", "exploration",
    "online reference-model monitor (unpruned leaf history + MMR by definition) over random unit-of-work programs on the real PMMR backend; chain-level compaction differential",
    "Random programs follow the store's usage protocol exactly (optional rewind to an earlier block boundary with the matching positions, "
    "appends then removals per block, sync or discard, check_compact at earlier boundaries, drop/reopen) with forced spend patterns "
    "(siblings, subtrees, peaks, alternating, re-added then re-spent); after EVERY step root, size, data and hash of every unspent leaf, "
    "absence of spent leaves, Merkle proofs against the reference root and path, leaf_pos_iter and n_unpruned_leaves are compared with an "
    "unpruned reference. Chain level: >=160-block chain, Chain::compact twice, in-horizon reorgs that re-spend outputs, reopen; head, roots, "
    "unspent set and validate(false) before == after.",
    "Variable-size elements only on non-prunable backends (as grin uses them). Rewinds stay at or above the last compaction cutoff (guaranteed by the horizon).")

reg("C14", "exploration",
    "invariant hooks re-evaluated from scratch after every pool operation on the real Chain + TransactionPool + server adapters wiring",
    "Random operation sequences (valid / conflicting / dependent / duplicate / aggregated / low-fee / overweight / invalid submissions, stem and "
    "fluff, mining from prepare_mineable_transactions, foreign blocks with subsets or conflicting spends, reorgs incl. what the reorg cache "
    "hands back next to a stem spender of the same coin, eviction at capacity) run "
    "against the node's own wiring (ChainToPoolAndNetAdapter, PoolToChainAdapter). After every operation: the txpool aggregate validates and "
    "passes Chain::validate_tx, no shared inputs, stempool+txpool jointly valid, nothing violating fee / weight / validity was admitted, the "
    "mineable set assembles into a block within the weight limit that process_block accepts.",
    "Zero peers (broadcast paths see an empty peer set). NRD kernels not exercised. Two recorded known findings (lower-height reorg leaves no-longer-mineable txs).")

reg("C15", "exploration",
    "reference-model monitor: from-scratch bitmap commitment over the replayed unspent set vs the node's incremental accumulator, on multi-chunk worlds; forged-root blocks",
    "A trunk spanning 2 (quick) / 4 (thorough) 1024-bit chunks is built once; scenarios on separate nodes: spends at indices 1020-1027, in the "
    "oldest chunk, in the last partial chunk; a reorg from below the 1024-output boundary (rewind shrinks the output set across a chunk "
    "boundary), regrowth, reorg back; random mixes with winning forks; head resets with no block following (Chain::reset_chain_head over "
    "odd and even output counts); restart. After EVERY accepted block and head reset the node's bitmap root must equal "
    "the commitment recomputed from scratch; blocks whose output_root commits to another bitmap (5 variants, everything else right) must be refused.",
    "SKIP_POW delivery. Trusted base: hash primitive and BitmapChunk serialisation.")

reg("C18", "exploration",
    "nested-transaction reference map + unique-id snapshot history checker (all-or-none per batch, prefix consistency) + crash enumeration around Batch::commit",
    "Single-thread programs over 3 key spaces with nested batches to depth 3 and every commit/drop fate chain, compared op by op and after "
    "reopen with a stack-of-overlays model; multi-thread runs (writers, point readers, snapshot iterators, iterator holders sleeping across "
    "pending map resizes, >10 000 keys per space) where every snapshot must contain all or none of each batch's keys and equal some prefix of "
    "the commit log; no operation may fail for lack of space during >=5 resizes, also when the writing thread itself holds an iterator "
    "at the batch() call at which the enlargement falls due; every crash point lmdb.commit.pre/post (also after a resize) "
    "is killed by abort and the reopened content must equal exactly the state for the completed commits.",
    "Process death, not power loss (OS page cache survives). Batches are sized to fit the 10% headroom the resize policy leaves (assumption recorded in the evidence).")

reg("C05", "exploration",
    "differential oracle against an independent graph-theoretic reference (own siphash, edge definitions, cycle decider, solver): exhaustive tuples in tiny graphs, solver cycles + near misses in larger ones; hang/panic monitors",
    "For all five Cuckoo variants: every ascending 8-tuple of 16-edge graphs (12 870 per header, 120 headers per variant; 10.5M-tuple graphs in "
    "thorough) is judged by PoWContext::verify and by a reference decider written from the graph definitions (exact count, ascending, in "
    "range, every half-edge exactly one junction partner, one component); larger graphs (edge bits 8-16, proof sizes 8 and 42): reference "
    "solver cycles, ~130 mutations each, unions of cycles (disjoint, figure-eight, theta), wrong-length cycles, open paths, bad-direction "
    "cycles, out-of-range aliases; variant selection by chain type/height/edge bits; to_difficulty vs own formula over independently packed "
    "nonces; Proof serialisation bit-exact with non-zero padding refused. Every verify call is under a panic and a hang monitor.",
    "Graphs of edge_bits 29/31+ cannot be solved here; the verifier code is the same, only masks differ.")

reg("C09", "fault_enumeration",
    "crash-point enumeration at cfg-guarded hooks (abort in a sacrificial process at every durable step) + reopen / validate / re-delivery differential against an uninterrupted twin",
    "8 scenarios (plain extension, extension spending the oldest output, fork block, reorg with spends, header-only reorg, compaction, compaction "
    "then block, spend of a pre-horizon output on a compacted node) on fixed worlds; count mode lists every crash point reached (422 per "
    "world: before/after each file truncate, append+fsync, temp-file rename, file replace, LMDB commit, plus two torn appends per MMR file append — only the first 5 bytes / all but the last byte of the buffered records written) and EVERY one is crashed; a fresh "
    "process must open the chain, find the head on the previously accepted chain, pass validate(false), equal the replayed reference state, "
    "converge after re-delivery to the twin's head and state, accept a later block; compaction crash points that recover are verified a second time with the compaction deferred until after further blocks. 552 crash points that fail are recorded known findings "
    "(4 root causes, see DESIGN.md); any other failing point, or a listed point failing differently, is a violation.",
    "Process death at the hook (abort, no destructors, LMDB env not closed); the OS page cache survives: power loss (loss or reordering of completed writes) is out of reach; appends to MMR files cut short by the death of the process are covered (hook crash_point_torn). Worlds are fixed (not seed-derived) so that recorded findings are reproducible bit for bit.")

reg("C20", "exploration",
    "determinism and algebraic round-trip oracles (own mod-n scalar reference) over seeds x paths x amounts x switch modes x proof builders x view keys",
    "Key derivation and commitments agree across calls and across keychains from the same seed and are pairwise distinct otherwise; range "
    "proofs from both builders verify and rewind to exactly (amount, path, mode) with the same seed or a matching view key and to nothing with "
    "another seed; split / sum / add-subtract identities against an independent 256-bit mod-n adder; builder transactions, rewards and "
    "blocks validate and their kernel signatures verify; aggsig sign/verify round trips and refusals; kernels signed jointly by 2-3 parties "
    "(partial_transaction per party, partial signatures, add_signatures) verify and their transactions validate.",
    "secp256k1-zkp internals are the trusted base. One recorded known finding (view keys cannot rewind Regular-switch outputs: unimplemented upstream).")

reg("C16", "exploration",
    "reference-model monitor for segment soundness (MMR by definition + dependency analysis of what a segment's root depends on) + full-sync differential for state sync from segments / archive, with hostile material",
    "Store level: protocol-faithful pruned/compacted MMRs; every (height 0..6, idx) segment must validate against the reference root, and 11 "
    "single-element corruption classes of the parts the root depends on must fail. Chain level: headers-only receivers assemble the state of "
    "45-104 block sources (some compacted) through the real Segmenter/Desegmenter with lowered segment heights in 6 arrival-order classes "
    "(duplicates, early segments, interleaved trees) and through the zip archive; the result must equal the source at the archive header "
    "and the replayed ledger (head, roots, sizes, unspent set, sums), pass validate and follow to the tip. Hostile segments and 18 hostile "
    "archive classes must be refused or end in a failed finalisation: a finalised state whose roots (recomputed over the data the node holds) "
    "differ from the archive header is the violation.",
    "The harness requests segment identifiers itself (the request scheduler is outside the statement). Redundant extra hashes are observed only, as the statement says.")

reg("C17", "exploration",
    "offline checker over recorded histories (HeadMove/HeaderHeadMove event logs, per-thread observations) + end-state differential, under seeded scheduler perturbation; hang watchdog with gdb backtraces; ThreadSanitizer tier",
    "One real Chain shared by 3-6 peer threads (competing forks, header-first, duplicates, orphans) and 3-7 reader / template / validate / "
    "compactor / segmenter threads behind a barrier, sched_point perturbation at lock and commit points with a per-run seed; 270 (quick) / "
    "~2700 (thorough) runs. Readers: head always names a stored block, observed work never decreases, head+roots+sizes read under one lock "
    "equal the reference ledger's commitments, block templates carry reference roots, every get_unspent answer (None included) is the "
    "answer of the state of a head of the call interval; event logs form a chain of strictly increasing work to "
    "accepted stored blocks; end state == unique max-work block == replayed reference == sequentially fed node, validate(false). No progress "
    "for 60 s -> all-thread gdb backtraces, re-run; only a reproduced hang is a violation. Thorough adds a TSan build (any report with a /repo frame is a violation).",
    "Schedules the OS scheduler plus perturbation never produce are out of reach; at most 14 threads per run.")

NOT_READY_REASON = "check under construction in this session (design in DESIGN.md section 3); not yet claimed"

# what the checks gained after the rounds of independently seeded changes (DESIGN.md 8.3a)
EXTRA = {
 "C15": " Head resets with no block following across a chunk boundary: a coinbase-only fork grows across the 1024-output boundary, the head is reset to fork blocks whose output set ends in the chunk before. Accumulator-level programs over output sets of up to 22 chunks (whole interior chunks spent, boundaries, multi-chunk rewinds, restart).",
 "C04": " Part C chains are 66 (quick) / 90 (thorough) headers long per production network, so the retarget window holds its full 61 real headers (irregular block times).",
 "C10": " Among the duplicate-entry perturbations: the same output (features + commitment) twice with different range-proof bytes. With the NRD feature flag off, feature tag 3 is an undefined tag: refused under every protocol version alike, as a feature set, a kernel and inside a transaction.",
 "C20": " Phase F: the public BIP32 route (ExtendedPubKey::derive_pub from the root) gives the public key and chain code of the privately derived child, ExtKeychain::derive_key(.., None) walks the same private route, hardened children are refused on the public route. Every fifth proof case also over extra data (empty or 1-64 bytes): verify and rewind over the same data.",
 "C01": " Second binary (c16 --forged-for-c01, evidence under coverage.extra.pibd): whole-state acceptance through state sync — source chains whose headers commit to an unproven output or unsigned kernel (genesis output = leaf 0, or inside block 5 installed behind the pipeline) are served by Chain::segmenter() to a headers-only receiver; every segment is honest w.r.t. the header roots, validate_complete_state must refuse (Chain::validate(false) on the source is the control). Fee totals of multi-kernel transactions at and above 2^40. Whole-state acceptance: value-creating blocks (unsigned kernel hiding value, swapped range proofs, inflated output) installed behind the pipeline must fail Chain::validate(false), for even and odd kernel counts, in a state with 1067 unspent outputs (proof batches of 1000) and in states with 5095 kernels (signature batches of 5000; bad kernel in the first full batch / in the tail). Block operators whose coinbase KERNEL excess carries the created value (output claims more, excess = output - subsidy, foreign or random signature).",
 "C02": " validate_tx probes: the transactions of the world's blocks are offered to Chain::validate_tx after every delivery and judged against the replayed unspent set. About half of the blocks with inputs are delivered with (features, commitment) inputs; a fifth forged kind mislabels an input's features; compaction x reorg scenarios also with the competing fork's headers known before the compaction and with the spent sibling pairs created in the very horizon block; the Merkle proofs the node serves for unspent outputs must verify against the reference root. The shared compaction scenario also brings up a follower from the state archive the subject serves (headers, txhashset_read -> txhashset_write, then the blocks above the archive header): what the follower reports as unspent is the replayed state right after the sync and at the tip. A directed validate_tx probe of the class 'inputs unspent, one output re-creating an unspent commitment'.",
 "C03": " Orders in which an orphan is handed over several times before its parent arrives. The committed header_head obeys the same more-work rule. Deep world: a 107-block chain with 1035 outputs (two bitmap chunks) with a 2-block fork whose newer block spends outputs of the oldest chunk against a heavier 3-block fork in four delivery orders, and a 62-block fork leaving the chain 60 blocks below the head (parent-first and header batches first). The orphan pool exactly at its capacity: MAX_ORPHAN_SIZE distinct blocks waiting for their parent (headers known), some handed over again while they wait, the parent last; six orders including a sequential control end on the same head and state.",
 "C05": " Genuine simple cycles of other lengths (2..41, 43..50) of the same header-seeded graph are presented through pow::verify_size.",
 "C06": " Valid forks of one or two blocks that end on EXACTLY the head's cumulative difficulty with other content: accepted, head unmoved, best-chain snapshot unchanged. Hostile blocks also on best-chain blocks below the head (rewind only); header batches with a wrong prev_root; the broken header and its descendants must not be in the header store afterwards.",
 "C07": " Hash-only VecBackend programs (push / rewind; root, size, Merkle proof of a random leaf after every step). Huge arguments run in monitored child processes (allocation cap, hang watchdog, attribution by re-running the argument alone); programs on one long-lived PMMR object observed only before a rewind and after different leaves were pushed back to the same size; proofs of present leaves with other leaves removed. One RewindablePMMR view repositioned 64 times forwards and backwards within the backend, and a view created empty and positioned by rewind(): size, peaks, root against the reference prefix each time. One long-lived PMMR over a backend whose append / rewind fails now and then (fault injected before anything changes): an element whose push returned an error was not appended; size, peaks, root, proofs and the positions of later pushes are those of the elements really appended. C6: Merkle proofs in MMRs of 2^k + r leaves (k up to 61) given by definition along one branch (random sibling / peak hashes, positions from the postorder layout in u128): the path of the definition verifies for exactly that element and position, five corruption classes do not.",
 "C08": " Compaction x reorg scenarios additionally with header-first forks, with the spent pairs created in the horizon block, and under UserTesting parameters (cut-through horizon 70, state-sync threshold 20) in a process of their own. One unit in every fourth prunable store program spends every leaf still unspent, commits and compacts at the head (data file left empty) and the same instance goes on; the shared chain scenario brings up a follower from the subject's state archive.",
 "C11": " Also the API-facing JSON documents with hand-written Deserialize impls (api::OutputPrintable, api::Output: every key dropped / null / wrong type / twice, proofs of every length) and their post-decode accessors. Headers with a genuine proof of work and extreme heights / MMR sizes (the untrusted reader checks the proof before the bounds that depend on them). The JSON form of a transaction (foreign API push_transaction): every string / number leaf replaced by hostile values, then validate_read (two panics found and repaired: b443f0c06, 54dbfc8b4).",
 "C09": " Two scenarios with the header chain ahead of the body chain: the header, and the block, of an equal-work sibling of a block announced header-first.",
 "C12": " Outputs created, spent and created again (the commitment occurs twice on one side: exactly the matched pairs go, operand sets that would leave a duplicate must be refused); every second hydration takes the node's route through Pool::retrieve_transactions. Operand sets without a single output between them (transactions that spend everything as fee).",
 "C13": " Pool decisions for all three rules with the header chain on a competing fork (one above / level with / one below the body head); decisions taken by a node closed and reopened right before them (start-up index rebuild). The same NRD kernel mined 4-6 times on one chain, with forks that leave the chain below two or more of those occurrences and carry the kernel again one block early / exactly at / one block after the threshold, a restart before the fork, and the chain reorganising to the fork and back: every block judged by the reference ledger on its own ancestry. One pool kept through a reorganisation onto a heavier but SHORTER fork: stem transactions exactly on their thresholds are handed to it again afterwards (which fluffs them) and judged at the next height of the new fork, offsets -1 / 0 / +1; being in the txpool counts as accepted. One transaction spending a mature and an immature coinbase (both input orders); immature spends in blocks whose (features, commitment) inputs declare the coinbase a plain output.",
 "C14": " Header chain ahead of the body chain (headers announced without bodies, then a submission locked just beyond the body chain's next height); every second real mine whose set the reference rules accept goes through the miner's own template builder (mine_block::get_block, hook H7; it retries for ever on failure, so a time-out is the verdict) and the returned block must sit on the head, carry exactly the mineable kernels and be accepted. Immature coinbase spends also as (features, commitment) inputs that declare the coinbase a plain output; a refused mined block names its cause (entry inadmissible when admitted / height of the next block fell after admission), so the recorded reorg-to-lower-height finding cannot hide another. A weight-boundary operation: a fan-out and its consolidating child in the pool, fillers walking the pool weight across the mineable limit, the mineable set assembled and weighed after every step. A dependent chain that exists in the stempool only, then a txpool submission spending the parent's input otherwise (directed operation in every sequence).",
 "C16": " A boundary world whose archive header commits to exactly 1024 outputs; hostile archives in which an unspent leaf is re-labelled with its leaf hash recomputed (sibling spent / unspent). A source whose first 1099 outputs (genesis output included) are all spent at the archive header: an all-zero bitmap chunk in front of a non-zero one, uncompacted (odd seeds) / compacted (even seeds). Every second refused archive leaves the unpacking sandbox uncleaned before the honest archive follows; plain sources are asked for their segmenter on a fork across the archive header that is then reorganised away.",
 "C17": " Every second run starts with the database file just below its first map enlargement, so the resize gate (wait for all open transactions, keep new ones out) is crossed while every thread is busy. Second binary (c17w, evidence under coverage.extra.wiring): the node's own wiring — Chain + TransactionPool + PoolToChainAdapter + ChainToPoolAndNetAdapter + NetToChainAdapter as servers/src/grin/server.rs builds them — shared by peer threads (block_received / header_received / compact_block_received, compact blocks hydrated from the pool), transaction relays (transaction_received), a miner (mine_block::get_block through hook H7: pool lock then chain locks; templates checked against the reference commitments, some mined and submitted) and look-up threads; same watchdog / HeadMove-log / end-state oracles plus the pool some sequential order would leave. Two archive-server threads per run (txhashset_read of the head / its parent: every handed-out file must be the finished archive, which must unpack completely) and kernel look-ups among the readers. Deterministic companion: body head on a fork with transactions while the header chain is on a heavier header-only fork with fewer kernels (24 / 96 states), every kernel of the body chain looked up through get_kernel_height from a helper thread — a look-up that does not return within 2 x 30 s holds the header MMR lock for ever (defect 56339d478, found by the concurrent runs); 20 other read calls of the API / sync code (get_header_for_output, get_merkle_proof_for_pos, unspent_outputs_by_pmmr_index, block_height_range_to_pmmr_indices, get_last_n_*, fork_point, check_txhashset_needed, txhashset_archive_header[_header_only], get_locator_hashes, difficulty_iter, get_header_by_height) must come back without a panic in the same state. A stall is decided in place (no re-execution) when, for a further 20 s, nothing progresses, the process burns no CPU time and the thread dump shows two or more threads parked on locks and none in file I/O; otherwise only a stall that recurs when the run is executed again alone is a violation. Hook H9 (both binaries): a count of live database transactions kept next to every transaction object, independently of the store's gate; no enlargement of the map may start while a transaction of that environment is live. The UTXO scan behind the get_unspent_outputs API among the reader roles: never fails while blocks are processed, every output comes with the range proof made for it.",
 "C18": " Both layers also put the COMMITTED bytes of a key again inside a batch that changed or deleted it (values are otherwise unique). Second binary (c18c, evidence under coverage.extra.chainstore): the same overlay-model oracle one layer up, on the chain's own store — ChainStore::Batch helpers (heads, headers, blocks, sums, spent index, output_pos index and its iterator), child batches to depth 3 including parents that write only through their children, the NRD recent-kernel index (push / pop / pop_back / rewind / peek / clear and whole-list walks) — with reads inside batches, through the store's own handle while a batch is open, and after close + reopen. Reader storm (hook H9): 24 / 240 worker processes in which a writer grows a fresh store through ~6 enlargements while 6 readers keep exists / get_ser / iter transactions coming, schedule perturbed at every transaction-open point; every read answers with committed data, the writer never fails, the worker is not killed by a signal, and the live-transaction monitor saw no enlargement start with a transaction of that environment live. A reader that stays: an iterator kept open on another thread across a due enlargement (the writer may wait, nothing may fail, the iterator sees its snapshot). Storm runs with 6 / 2 / 1 readers, every fourth with the writer holding an iterator on a second environment. Single-writer ladders of batches just inside the 10 % headroom (60 profiles on fresh 1 MiB stores, one value per batch): no batch fails for lack of space.",
 "C19": " The sending half of a real connection: the same sequences handed to ConnHandle::send of a conn::listen connection (writer thread, write_message, attachment streamed from a file) and read by conn::listen on the other end. The limit cases also under Mainnet parameters in a process of their own (unknown-type bodies of 47 999 .. 1 000 000 bytes and up to the 5.4 MB limit, each followed by a sentinel); handshake followed by traffic in the same segment; self connection after 1 / 99 / 150 outbound handshakes. The recorded count-below-content finding is keyed per message type (GetHeaders, PeerAddrs): a Headers frame read with bytes left over is a violation of its own. Under Mainnet parameters a frame larger than any the test networks allow, immediately followed by a header list of 1..65 headers (production genesis headers, order-sensitive pattern) and a ping: handed out whole and in order.",
}

def main():
    props = [json.loads(l) for l in open("/verif/properties.jsonl")]
    checks = []
    na = []
    for p in props:
        pid = p["id"]
        if pid in READY:
            r = dict(READY[pid])
            r["text"] = r["text"] + EXTRA.get(pid, "")
            checks.append({
                "property_id": pid,
                "quick_cmd": "./check %s --tier quick" % pid,
                "thorough_cmd": "./check %s --tier thorough" % pid,
                "evidence_file": "/verif/evidence/%s.json" % pid,
                "replay_cmd_template": "./check %s --replay {path}" % pid,
                "engine": "harness",
                "level_claimed": {"category": r["level"], "text": r["text"], "design_ref": "DESIGN.md section 3, %s" % pid},
                "level_note": r["note"],
                "technique": r["technique"],
            })
        else:
            na.append({"property_id": pid, "reason": NOT_READY_REASON})
    m = {
        "version": 1,
        "setup_cmd": "./check setup",
        "hooks": {
            "guard": "grin_verif",
            "enable": "RUSTFLAGS='--cfg grin_verif' (set in /verif/harness/.cargo/config.toml; the harness crates depend on /repo's crates by path, so every check rebuilds from /repo's working tree)",
            "baseline_off_cmd": "cd /repo && cargo test --workspace --no-fail-fast --offline",
            "source_commits": [l.split()[0] for l in reversed(HOOK_COMMITS)],
            "add_only": True,
        },
        "engines": [{
            "name": "harness",
            "path": "/verif/harness",
            "serves_properties": sorted(READY),
            "kind_free_text": "Rust workspace of workload drivers and monitors (independent reference models, invariant checks, event-log checkers, crash/fault injection at cfg-guarded hooks, panic/allocation/hang monitors) run against the real grin crates; thorough tiers rebuild the same binaries under ASan/TSan and run Miri/valgrind on the FFI-free / small workloads",
        }],
        "checks": checks,
        "not_applicable": na,
        "notes": "Technique family: runtime monitoring and sanitizers. Verdicts are three-valued: exit 0 held on what was observed, exit 1 + VIOLATION line, exit 2 inconclusive (minimum-observation thresholds not met; never a VIOLATION). See DESIGN.md.",
    }
    json.dump(m, open("/verif/MANIFEST.json", "w"), indent=1)
    open("/verif/MANIFEST.json", "a").write("\n")
    print("claimed:", sorted(READY), "not yet:", [x["property_id"] for x in na])

if __name__ == "__main__":
    main()
