#!/usr/bin/env python3
"""Regenerate /verif/MANIFEST.json from the table below (only READY properties are claimed)."""
import json, subprocess, sys

HOOK_COMMITS = subprocess.run(
    ["git", "-C", "/repo", "log", "--format=%H %s", "--grep=^verif hook"],
    stdout=subprocess.PIPE, text=True).stdout.strip().splitlines()

# id -> dict(level, text, note, technique, design_ref)
READY = {}

def reg(pid, level, technique, text, note):
    READY[pid] = dict(level=level, technique=technique, text=text, note=note)

reg("C02", "exploration",
    "reference-model monitor (independent ledger replay) over random fork-tree histories + forged single-rule-violation blocks",
    "Executes random fork-tree histories (spends in every placement class, re-created commitments, reorgs in both directions, reopen, "
    "compaction on long histories) against the real Chain; after every delivery an independent replay-from-genesis ledger (plain "
    "bookkeeping + MMR-by-definition + from-scratch bitmap) judges accept/reject, head, the full unspent set through both access paths, "
    "roots and sizes. Invalid blocks (double spend, never-created, fork-foreign, duplicate unspent commitment) are forged with "
    "reference-computed header commitments so that the UTXO rule is the only thing wrong. Held on K executions, never 'verified'.",
    "Trusted base: secp256k1-zkp, blake2b, the harness's reference ledger. SKIP_POW delivery (PoW/difficulty rules are C04). "
    "Forks deeper than the compaction horizon are out of scope by the statement.")

reg("C01", "exploration",
    "validity-by-construction oracle (openings known to the harness, independent bookkeeping) + single-field corruption operators + running-sum recomputation over chain histories",
    "Valid transactions/blocks are assembled from openings the harness knows and re-checked by plain integer / curve bookkeeping; every "
    "corruption operator (amount, fee, offset, dropped/duplicated/foreign kernel, swapped proofs or signatures, replaced input, forged "
    "coinbase value or flag, over-claim with compensating burn) changes exactly one thing and must be refused by Transaction::validate / "
    "Block::validate / Chain::process_block; over fork-tree histories the stored running sums of every head are compared with sums "
    "recomputed from the replayed full state and the full-state equation is evaluated after every accepted block.",
    "Trusted base: secp256k1-zkp (proofs, signatures, point arithmetic) and blake2b. Soundness of the cryptography itself is out of reach.")

reg("C03", "exploration",
    "event-log checker (HeadMove hook) + reference max-work oracle per delivery + cross-order final-state comparison (exhaustive permutations for small trees)",
    "For random fork trees (SKIP_POW with pairwise distinct totals, and real PoW) the same block set is delivered in many orders: every "
    "permutation for trees of <=5 blocks (after header batches), sampled orders of classes parent-first / headers-first / children before "
    "parents (orphan pool) / duplicates / interleaved for larger ones. Per delivery: every HeadMove event goes to strictly more work and to "
    "a stored accepted block, head == reference max-work connected block; per tree: final best-chain state digests equal across all orders "
    "and equal to a node fed the winning chain only and to the replayed reference.",
    "Orphan eviction by age and beyond-capacity floods are not exercised. Ties in total difficulty are excluded from the order-independence clause only.")

reg("C06", "exploration",
    "snapshot-diff monitor around every refused call + twin-node differential over fork-tree histories with staged hostile inputs",
    "A subject node and a twin process the same history; the subject additionally receives hostile inputs failing at every validation stage "
    "(read-time, header rules, body validation, immature coinbase, forged UTXO violations, late root/size mismatches after the block was "
    "applied to the working MMRs, on the head and on fork parents, broken header batches, refused transactions). Structural snapshots "
    "(head, roots, sizes, full unspent set by two access paths, block sums and spend records of best-chain blocks) must be identical before "
    "and after each refused call and for valid losing-fork blocks; subject and twin must answer every later delivery identically.",
    "A refused block whose header is itself valid may leave that header remembered (header_head): best-chain-only comparison in that case, as the statement allows.")

reg("C10", "exploration",
    "round-trip / re-encoding / hash-invariance monitors over generated values x protocol versions + canonical-form perturbations built with an independent reference encoder",
    "About a million value x version round trips per quick run over every consensus and wire type (two readers, exact consumption, field "
    "equality, identical re-encoding, identity hash equal across versions and equal to an independent v1 reference encoding), and ~100k "
    "invalid-by-construction encodings (unsorted/duplicate entries, reserved or padding bits, undefined tags, inconsistent counts) that must "
    "be refused by both readers.",
    "p2p messages without a reference encoder are only covered by the metamorphic relations. One recorded known finding (IPv4-mapped PeerAddr normalisation).")

NOT_READY_REASON = "check under construction in this session (design in DESIGN.md section 3); not yet claimed"

def main():
    props = [json.loads(l) for l in open("/verif/properties.jsonl")]
    checks = []
    na = []
    for p in props:
        pid = p["id"]
        if pid in READY:
            r = READY[pid]
            checks.append({
                "property_id": pid,
                "quick_cmd": "./check %s --tier quick" % pid,
                "thorough_cmd": "./check %s --tier thorough" % pid,
                "evidence_file": "/verif/evidence/%s.json" % pid,
                "replay_cmd_template": "./check %s --replay {path}" % pid,
                "engine": "harness",
                "level_claimed": {"category": r["level"], "text": r["text"], "design_ref": "DESIGN.md section 3, %s" % pid},
                "level_note": r["note"],
                "technique": r["technique"],
            })
        else:
            na.append({"property_id": pid, "reason": NOT_READY_REASON})
    m = {
        "version": 1,
        "setup_cmd": "./check setup",
        "hooks": {
            "guard": "grin_verif",
            "enable": "RUSTFLAGS='--cfg grin_verif' (set in /verif/harness/.cargo/config.toml; the harness crates depend on /repo's crates by path, so every check rebuilds from /repo's working tree)",
            "baseline_off_cmd": "cd /repo && cargo test --workspace --no-fail-fast --offline",
            "source_commits": [l.split()[0] for l in reversed(HOOK_COMMITS)],
            "add_only": True,
        },
        "engines": [{
            "name": "harness",
            "path": "/verif/harness",
            "serves_properties": sorted(READY),
            "kind_free_text": "Rust workspace of workload drivers and monitors (independent reference models, invariant checks, event-log checkers, crash/fault injection at cfg-guarded hooks, panic/allocation/hang monitors) run against the real grin crates; thorough tiers rebuild the same binaries under ASan/TSan and run Miri/valgrind on the FFI-free / small workloads",
        }],
        "checks": checks,
        "not_applicable": na,
        "notes": "Technique family: runtime monitoring and sanitizers. Verdicts are three-valued: exit 0 held on what was observed, exit 1 + VIOLATION line, exit 2 inconclusive (minimum-observation thresholds not met; never a VIOLATION). See DESIGN.md.",
    }
    json.dump(m, open("/verif/MANIFEST.json", "w"), indent=1)
    open("/verif/MANIFEST.json", "a").write("\n")
    print("claimed:", sorted(READY), "not yet:", [x["property_id"] for x in na])

if __name__ == "__main__":
    main()
