#!/usr/bin/env python3
"""Regenerate /verif/MANIFEST.json from the table below (only READY properties are claimed)."""
import json, subprocess, sys

HOOK_COMMITS = subprocess.run(
    ["git", "-C", "/repo", "log", "--format=%H %s", "--grep=^verif hook"],
    stdout=subprocess.PIPE, text=True).stdout.strip().splitlines()

# id -> dict(level, text, note, technique, design_ref)
READY = {}

def reg(pid, level, technique, text, note):
    READY[pid] = dict(level=level, technique=technique, text=text, note=note)

reg("C02", "exploration",
    "reference-model monitor (independent ledger replay) over random fork-tree histories + forged single-rule-violation blocks",
    "Executes random fork-tree histories (spends in every placement class, re-created commitments, reorgs in both directions, reopen, "
    "compaction on long histories) against the real Chain; after every delivery an independent replay-from-genesis ledger (plain "
    "bookkeeping + MMR-by-definition + from-scratch bitmap) judges accept/reject, head, the full unspent set through both access paths, "
    "roots and sizes. Invalid blocks (double spend, never-created, fork-foreign, duplicate unspent commitment) are forged with "
    "reference-computed header commitments so that the UTXO rule is the only thing wrong. Held on K executions, never 'verified'.",
    "Trusted base: secp256k1-zkp, blake2b, the harness's reference ledger. SKIP_POW delivery (PoW/difficulty rules are C04). "
    "Forks deeper than the compaction horizon are out of scope by the statement.")

NOT_READY_REASON = "check under construction in this session (design in DESIGN.md section 3); not yet claimed"

def main():
    props = [json.loads(l) for l in open("/verif/properties.jsonl")]
    checks = []
    na = []
    for p in props:
        pid = p["id"]
        if pid in READY:
            r = READY[pid]
            checks.append({
                "property_id": pid,
                "quick_cmd": "./check %s --tier quick" % pid,
                "thorough_cmd": "./check %s --tier thorough" % pid,
                "evidence_file": "/verif/evidence/%s.json" % pid,
                "replay_cmd_template": "./check %s --replay {path}" % pid,
                "engine": "harness",
                "level_claimed": {"category": r["level"], "text": r["text"], "design_ref": "DESIGN.md section 3, %s" % pid},
                "level_note": r["note"],
                "technique": r["technique"],
            })
        else:
            na.append({"property_id": pid, "reason": NOT_READY_REASON})
    m = {
        "version": 1,
        "setup_cmd": "./check setup",
        "hooks": {
            "guard": "grin_verif",
            "enable": "RUSTFLAGS='--cfg grin_verif' (set in /verif/harness/.cargo/config.toml; the harness crates depend on /repo's crates by path, so every check rebuilds from /repo's working tree)",
            "baseline_off_cmd": "cd /repo && cargo test --workspace --no-fail-fast --offline",
            "source_commits": [l.split()[0] for l in reversed(HOOK_COMMITS)],
            "add_only": True,
        },
        "engines": [{
            "name": "harness",
            "path": "/verif/harness",
            "serves_properties": sorted(READY),
            "kind_free_text": "Rust workspace of workload drivers and monitors (independent reference models, invariant checks, event-log checkers, crash/fault injection at cfg-guarded hooks, panic/allocation/hang monitors) run against the real grin crates; thorough tiers rebuild the same binaries under ASan/TSan and run Miri/valgrind on the FFI-free / small workloads",
        }],
        "checks": checks,
        "not_applicable": na,
        "notes": "Technique family: runtime monitoring and sanitizers. Verdicts are three-valued: exit 0 held on what was observed, exit 1 + VIOLATION line, exit 2 inconclusive (minimum-observation thresholds not met; never a VIOLATION). See DESIGN.md.",
    }
    json.dump(m, open("/verif/MANIFEST.json", "w"), indent=1)
    open("/verif/MANIFEST.json", "a").write("\n")
    print("claimed:", sorted(READY), "not yet:", [x["property_id"] for x in na])

if __name__ == "__main__":
    main()
