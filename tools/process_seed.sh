#!/bin/bash
# [SEED_ROOT=/tmp/seed2 SEED_SUFFIX=b] tools/process_seed.sh <ID> <crate> <demo file> [extra crates]:
# collect a seeded change, confirm it, run the check against it
ID=$1; CRATE=$2; DEMO=$3; shift 3
ROOT=${SEED_ROOT:-/tmp/seed}; SFX=${SEED_SUFFIX:-}
mkdir -p /verif/seeded/$ID$SFX
cp -r $ROOT/$ID/seed_out/* /verif/seeded/$ID$SFX/
python3 /verif/tools/confirm_seed.py $ID $CRATE $DEMO "$@" 2>&1 | grep -E "CONFIRMED|NOT CONFIRMED"
SELFTEST_SLOT=${SELFTEST_SLOT:-s} python3 /verif/tools/selftest.py /verif/seeded/$ID$SFX/patch.diff $ID 2>&1 | grep -E "^(CAUGHT|MISSED|BUILD|ERROR|  )" | head -${SEED_LINES:-6}
