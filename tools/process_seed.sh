#!/bin/bash
# tools/process_seed.sh <ID> <crate> <demo file> [extra crates]: collect a seeded change, confirm it, run the check against it
ID=$1; CRATE=$2; DEMO=$3; shift 3
mkdir -p /verif/seeded/$ID
cp -r /tmp/seed/$ID/seed_out/* /verif/seeded/$ID/
python3 /verif/tools/confirm_seed.py $ID $CRATE $DEMO "$@" 2>&1 | grep -E "CONFIRMED|NOT CONFIRMED"
SELFTEST_SLOT=s python3 /verif/tools/selftest.py /verif/seeded/$ID/patch.diff $ID 2>&1 | grep -E "^(CAUGHT|MISSED|BUILD|ERROR|  )" | head -6
