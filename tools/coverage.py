#!/usr/bin/env python3
"""Blind-spot finder (development tool, not a check): which functions of the files a property is anchored in are never
executed by that property's quick check?

  tools/coverage.py build            coverage-instrumented harness binaries (cargo +nightly, target-cov)
  tools/coverage.py run [Cxx ...]    run the quick tier of the given (default: all) properties under instrumentation
  tools/coverage.py report [--lines] [Cxx ...] per property: anchored file -> functions with zero executions
                                     (--lines: also the uncovered line ranges inside executed functions)

Everything lives under /tmp/scratch/cov (profiles) and harness/target-cov (binaries); nothing here is needed by a
registered command.
"""
import json, os, re, subprocess, sys, glob, shutil

ROOT = "/verif"
HARNESS = ROOT + "/harness"
TOOLS = "/root/.rustup/toolchains/nightly-x86_64-unknown-linux-gnu/lib/rustlib/x86_64-unknown-linux-gnu/bin"
COV = "/tmp/scratch/cov"
VR = "/tmp/scratch/covroot"
TARGET = HARNESS + "/target-cov"


def load(name):
    src = open(ROOT + "/check").read()
    m = re.search(name + r" = \{.*?\n\}", src, re.S)
    ns = {}
    exec(m.group(0), ns)
    return ns[name]


def bins_of(pid):
    checks, extra = load("CHECKS"), load("EXTRA")
    b = [(checks[pid][0], checks[pid][1])]
    b += [(e[0], e[1]) for e in extra.get(pid, [])]
    return b


def build():
    env = dict(os.environ, CARGO_NET_OFFLINE="true", CARGO_TARGET_DIR=TARGET,
               RUSTFLAGS="-Cinstrument-coverage --cfg grin_verif --check-cfg cfg(grin_verif)")
    return subprocess.call(["cargo", "+nightly", "build", "--release", "--offline", "-p", "vbins", "-p", "vpool"], cwd=HARNESS, env=env)


def run(pids):
    os.makedirs(COV, exist_ok=True)
    shutil.rmtree(VR, ignore_errors=True)
    os.makedirs(VR)
    shutil.copy(ROOT + "/KNOWN_FINDINGS.json", VR)
    os.symlink(HARNESS, VR + "/harness")
    for pid in pids:
        for f in glob.glob("%s/%s-*.profraw" % (COV, pid)):
            os.remove(f)
        for pkg, b in bins_of(pid):
            env = dict(os.environ, VERIF_ROOT=VR, LLVM_PROFILE_FILE="%s/%s-%s-%%8m.profraw" % (COV, pid, b), VERIF_EVIDENCE_SUFFIX=".cov")
            p = subprocess.run([TARGET + "/release/" + b, "--tier", "quick", "--seed", "1"], cwd=VR, env=env,
                               stdout=subprocess.PIPE, stderr=subprocess.STDOUT, text=True, errors="replace")
            tail = [l for l in p.stdout.splitlines() if "held on" in l or "INCONCLUSIVE" in l or "VIOLATION" in l][:3]
            print(pid, b, "exit", p.returncode, tail)


def demangle(n):
    m = re.match(r"_ZN(.*)E$", n)
    if not m:
        return n
    s, out = m.group(1), []
    while s:
        k = re.match(r"(\d+)", s)
        if not k:
            break
        ln = int(k.group(1))
        s = s[len(k.group(1)):]
        out.append(s[:ln])
        s = s[ln:]
    if out and re.match(r"h[0-9a-f]{16}$", out[-1]):
        out.pop()
    r = "::".join(out)
    for a, b in (("$LT$", "<"), ("$GT$", ">"), ("$u20$", " "), ("$C$", ","), ("$RF$", "&"), ("$LP$", "("), ("$RP$", ")"), ("$u7b$", "{"), ("$u7d$", "}"), ("..", "::")):
        r = r.replace(a, b)
    return r


def report(pids):
    props = {json.loads(l)["id"]: json.loads(l) for l in open(ROOT + "/properties.jsonl")}
    for pid in pids:
        raws = glob.glob("%s/%s-*.profraw" % (COV, pid))
        if not raws:
            print(pid, "no profiles")
            continue
        prof = "%s/%s.profdata" % (COV, pid)
        subprocess.check_call([TOOLS + "/llvm-profdata", "merge", "-sparse", "-o", prof] + raws)
        objs = []
        for _, b in bins_of(pid):
            objs += ["-object", TARGET + "/release/" + b]
        objs[0:1] = []  # first object is positional
        p = subprocess.run([TOOLS + "/llvm-cov", "export", "-format=lcov", "-instr-profile", prof] + objs + ["-ignore-filename-regex", r"(\.cargo|rustc|/verif/)"],
                           stdout=subprocess.PIPE, stderr=subprocess.DEVNULL, text=True)
        lines, cur = {}, None
        for l in p.stdout.splitlines():
            if l.startswith("SF:"):
                cur = l[3:]
                lines.setdefault(cur, {})
            elif l.startswith("DA:") and cur:
                ln, cnt = l[3:].split(",")[:2]
                lines[cur][int(ln)] = max(lines[cur].get(int(ln), 0), int(cnt))
        print("=" * 30, pid, props[pid]["title"])
        for a in props[pid]["anchors"]["files"]:
            f = "/repo/" + a
            da = lines.get(f)
            if da is None:
                print("  %-45s NOT IN THE BINARY'S COVERAGE MAP" % a)
                continue
            src = open(f).read().splitlines()
            fns = []
            for i, t in enumerate(src, 1):
                if re.match(r"\s*(#\[cfg\(test\)\]|mod tests? \{)", t):
                    break
                m = re.match(r"\s*(pub(\([a-z:]+\))?\s+)?(const\s+)?(unsafe\s+)?fn\s+(\w+)", t)
                if m:
                    fns.append((i, m.group(5)))
            never, n_exec = [], 0
            for k, (ln, name) in enumerate(fns):
                hi = fns[k + 1][0] if k + 1 < len(fns) else len(src) + 1
                inst = [da[x] for x in range(ln, hi) if x in da]
                if not inst:
                    continue
                if any(c > 0 for c in inst):
                    n_exec += 1
                else:
                    never.append("%s:%d" % (name, ln))
            print("  %-45s %d functions executed, never: %s" % (a, n_exec, ", ".join(never) if never else "-"))
            if LINES:
                # uncovered line ranges inside functions that WERE executed (error paths, branches never taken)
                for k, (ln, name) in enumerate(fns):
                    hi = fns[k + 1][0] if k + 1 < len(fns) else len(src) + 1
                    inst = [(x, da[x]) for x in range(ln, hi) if x in da]
                    if not inst or not any(c > 0 for _, c in inst):
                        continue
                    zero = [x for x, c in inst if c == 0]
                    if not zero:
                        continue
                    rngs, st, pv = [], zero[0], zero[0]
                    for x in zero[1:]:
                        if x > pv + 2:
                            rngs.append((st, pv)); st = x
                        pv = x
                    rngs.append((st, pv))
                    print("      %s:%d  uncovered: %s" % (name, ln, ", ".join("%d-%d" % r if r[0] != r[1] else "%d" % r[0] for r in rngs)))
                    for a0, b0 in rngs[:6]:
                        print("          | " + src[a0 - 1].strip()[:110])


LINES = False
if __name__ == "__main__":
    a = sys.argv[1:]
    if "--lines" in a:
        LINES = True
        a.remove("--lines")
    allp = ["C%02d" % i for i in range(1, 21)]
    if not a:
        print(__doc__)
    elif a[0] == "build":
        sys.exit(build())
    elif a[0] == "run":
        run(a[1:] or allp)
    elif a[0] == "report":
        report(a[1:] or allp)
