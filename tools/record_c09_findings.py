#!/usr/bin/env python3
"""(Re)generate the C09 entries of KNOWN_FINDINGS.json from the output of a C09 run on the
unchanged tree:  ./check C09 --tier thorough > out.txt ; tools/record_c09_findings.py out.txt
Only used while triaging; checks never write KNOWN_FINDINGS.json."""
import json, re, sys, collections
p = '/verif/KNOWN_FINDINGS.json'
k = json.load(open(p))
old = {f['signature']: f for f in k['findings'] if f['property'] == 'C09'}
classes = {
 'A': "after Chain::compact has deleted the blocks below the horizon, the start-up recovery loop (setup_head) that undoes an interrupted block acceptance walks back past the horizon and needs those deleted blocks: Chain::init fails and the node cannot start without a resync",
 'B': "the output MMR's leaf set is flushed to disk before the LMDB batch of the block is committed; after a crash in between the leaf set already lacks the outputs the interrupted block spends while the database still has the old head, setup_head cannot restore a leaf whose spending block was never committed and walks the head back until validate_roots passes (below header version 3 the bitmap is not bound), leaving a head whose unspent set is wrong",
 'C': "a header-chain reorganisation rewrites the header MMR files before the LMDB batch with the new header_head is committed (and the two header MMR files are flushed one after the other); after a crash in between the header MMR and header_head disagree and Chain::init gives up ('header PMMR inconsistent' / 'get header hash by height')",
 'D': "txhashset compaction replaces hash file, data file, prune list and leaf set of the output and range-proof MMRs in separate steps with nothing tying them together (AppendOnlyFile::replace also removes the file before renaming the temp file over it); a crash in the middle leaves output and range-proof MMRs compacted differently",
}
new = {}
for l in open(sys.argv[1]):
    m = re.search(r'(?:violation: |KNOWN-FINDING: property=C09 .*\[)(C09;scenario=(w[A-Z]):([a-z_]+);crash=([a-z_.]+)#(\d+);(.*?))(?: :: (.*)|\]$)', l.rstrip())
    if not m: continue
    sig, world, scen, label, occ, clause, msg = m.groups()
    if sig in old and msg is None:
        new[sig] = old[sig]; continue
    msg = msg or ''
    nb = None
    if 'torn_append' in label:
        # a torn append lies between the states of pre_append and post_sync of the same flush call: the class is
        # that of the neighbour recorded with the same clause; without such a neighbour it needs triage by hand
        for x in ('pre_append', 'post_sync'):
            n = "C09;scenario=%s:%s;crash=aof.flush.%s#%s;%s" % (world, scen, x, occ, clause)
            if n in old: nb = old[n]['class']
        if nb is None:
            print("NO NEIGHBOUR, triage by hand:", sig, msg[:160]); continue
    if nb: c = nb
    elif 'NotFoundErr' in msg: c = 'A'
    elif scen in ('reorg_with_spends', 'header_only_reorg') and clause == 'reopen_failed': c = 'C'
    elif scen == 'compaction' or 'replace' in label or 'write_tmp' in label or clause.startswith('redelivery') or clause.startswith('reopened_state'): c = 'D'
    elif scen == 'compaction_then_block': c = 'D'
    else: c = 'B'
    suffix = {'1': 'st', '2': 'nd', '3': 'rd'}.get(occ, 'th')
    new[sig] = {"property": "C09", "signature": sig, "class": c,
        "what": "crash at the %s%s occurrence of crash point %s in scenario %s (world %s): %s — %s. Observed: %s" % (occ, suffix, label, scen, world, clause, classes[c], msg.strip()[:200])}
k['findings'] = [f for f in k['findings'] if f['property'] != 'C09'] + [new[s] for s in sorted(new)]
json.dump(k, open(p, 'w'), indent=1)
print(len(new), 'C09 findings', collections.Counter(f['class'] for f in new.values()))
