#!/usr/bin/env python3
"""Validate monitors against breaking patches.

  tools/selftest.py <patch> <Cxx> [--tier quick] [--seed N] [--keep]
  tools/selftest.py --all [--only Cxx] [--names a,b,..] [--shard i/n] [--out f.json]   (every /verif/mutants/*.patch and /verif/seeded/*/patch.diff, per its meta)

Copies nothing into /repo: makes a git worktree of /repo's HEAD under
/tmp/scratch/selftest-repo, applies the patch there, mirrors /verif/harness to
/tmp/scratch/selftest-harness with its path dependencies rewritten to the
worktree, builds, runs the quick check of the target property with VERIF_ROOT
pointing to a scratch root, and expects exit 1 + a VIOLATION line. The scratch
worktree is removed afterwards (the harness mirror's target dir is kept between
mutants for incremental builds and removed with --clean).
"""
import json, os, re, shutil, subprocess, sys, time, glob

SCR = "/tmp/scratch"
SLOT = os.environ.get("SELFTEST_SLOT", "")
WT = os.path.join(SCR, "selftest-repo" + SLOT)
HM = os.path.join(SCR, "selftest-harness" + SLOT)
VR = os.path.join(SCR, "selftest-root" + SLOT)

sys.path.insert(0, "/verif")
def load_checks():
    src = open("/verif/check").read()
    m = re.search(r"CHECKS = \{.*?\n\}", src, re.S)
    ns = {}
    exec(m.group(0), ns)
    return ns["CHECKS"]

def load_extra():
    src = open("/verif/check").read()
    m = re.search(r"EXTRA = \{.*?\n\}", src, re.S)
    ns = {}
    if m:
        exec(m.group(0), ns)
    return ns.get("EXTRA", {})

def sh(cmd, **kw):
    return subprocess.run(cmd, stdout=subprocess.PIPE, stderr=subprocess.STDOUT, text=True, errors="replace", **kw)

def clean_wt():
    sh(["git", "-C", "/repo", "worktree", "remove", "--force", WT])
    shutil.rmtree(WT, ignore_errors=True)
    sh(["git", "-C", "/repo", "worktree", "prune"])

def prepare(patch):
    os.makedirs(SCR, exist_ok=True)
    clean_wt()
    p = sh(["git", "-C", "/repo", "worktree", "add", "--detach", WT, "HEAD"])
    if p.returncode != 0:
        print(p.stdout); return False
    # carry over uncommitted changes of /repo's working tree (e.g. a pending fix)
    d = subprocess.run(["git", "-C", "/repo", "diff", "HEAD"], stdout=subprocess.PIPE).stdout
    if d.strip():
        subprocess.run(["git", "-C", WT, "apply"], input=d)
    if patch:
        p = sh(["git", "-C", WT, "apply", "--whitespace=nowarn", os.path.abspath(patch)])
        if p.returncode != 0:
            print("patch does not apply:", p.stdout); return False
    # mirror harness
    os.makedirs(HM, exist_ok=True)
    sh(["rsync", "-a", "--delete", "--exclude", "target*", "/verif/harness/", HM + "/"])
    for f in glob.glob(HM + "/*/Cargo.toml"):
        s = open(f).read().replace('"/repo/', '"%s/' % WT)
        open(f, "w").write(s)
    shutil.rmtree(VR, ignore_errors=True)
    os.makedirs(VR)
    shutil.copy("/verif/KNOWN_FINDINGS.json", VR)
    os.symlink(HM, os.path.join(VR, "harness"))
    return True

def run_one(patch, pid, tier="quick", seed="1"):
    checks = load_checks()
    pkg, binary, _ = checks[pid]
    if not prepare(patch):
        return "ERROR"
    env = dict(os.environ, CARGO_NET_OFFLINE="true", VERIF_ROOT=VR, VERIF_SEED=seed, VERIF_TIER=tier,
               CARGO_TARGET_DIR=os.path.join(HM, "target"))
    t = time.time()
    p = sh(["cargo", "build", "--release", "--offline", "-p", pkg, "--bin", binary], cwd=HM, env=env)
    if p.returncode != 0:
        print(p.stdout[-3000:]); clean_wt(); return "BUILD-FAILED"
    bt = time.time() - t
    t = time.time()
    p = sh([os.path.join(HM, "target", "release", binary), "--tier", tier, "--seed", seed], cwd=VR, env=env)
    rt = time.time() - t
    out = p.stdout
    viol = [l for l in out.splitlines() if l.startswith("VIOLATION") or "] violation:" in l]
    res = "CAUGHT" if (p.returncode == 1 and any(l.startswith("VIOLATION") for l in viol)) else ("MISSED(exit %d)" % p.returncode)
    if res != "CAUGHT":
        # the property's further binaries (run by ./check after the main one)
        for ent in load_extra().get(pid, []):
            xpkg, xbin, tag = ent[0], ent[1], ent[2]
            xargs = list(ent[3]) if len(ent) > 3 else []
            t = time.time()
            pb = sh(["cargo", "build", "--release", "--offline", "-p", xpkg, "--bin", xbin], cwd=HM, env=env)
            if pb.returncode != 0:
                print(pb.stdout[-3000:]); continue
            bt += time.time() - t
            t = time.time()
            px = sh([os.path.join(HM, "target", "release", xbin)] + xargs + ["--tier", tier, "--seed", seed], cwd=VR,
                    env=dict(env, VERIF_EVIDENCE_SUFFIX="." + tag))
            rt += time.time() - t
            xv = [l for l in px.stdout.splitlines() if l.startswith("VIOLATION") or "] violation:" in l]
            if px.returncode == 1 and any(l.startswith("VIOLATION") for l in xv):
                res, viol, out = "CAUGHT", xv, px.stdout
                break
            out += "\n--- %s ---\n" % xbin + px.stdout
    clean_wt()
    print("%-8s %-4s %-55s build %.0fs run %.0fs" % (res, pid, os.path.basename(os.path.dirname(patch)) + "/" + os.path.basename(patch) if patch else "(no patch)", bt, rt))
    for l in viol[:4]:
        print("      ", l[:260])
    if res.startswith("MISSED"):
        print("\n".join("       " + l for l in out.splitlines()[-int(os.environ.get("SELFTEST_TAIL", "12")):]))
    return res

def main():
    a = sys.argv[1:]
    if not a:
        print(__doc__); return 2
    if a[0] == "--clean":
        clean_wt(); shutil.rmtree(HM, ignore_errors=True); shutil.rmtree(VR, ignore_errors=True); return 0
    tier, seed = "quick", "1"
    if "--tier" in a: tier = a[a.index("--tier") + 1]
    if "--seed" in a: seed = a[a.index("--seed") + 1]
    if a[0] == "--all":
        results = []
        items = []
        for f in sorted(glob.glob("/verif/mutants/*.patch")):
            pid = os.path.basename(f).split("-")[0].upper()
            items.append((f, pid))
        for d in sorted(glob.glob("/verif/seeded/*/")):
            meta = os.path.join(d, "meta.json")
            if os.path.exists(meta):
                m = json.load(open(meta))
                items.append((os.path.join(d, "patch.diff"), m["property"]))
        only = None
        if "--only" in a: only = a[a.index("--only") + 1].upper()
        # --names a,b,c : only the patches whose path contains one of these (mutant file stem or seeded directory name)
        if "--names" in a:
            names = [x for x in a[a.index("--names") + 1].split(",") if x]
            items = [(f, pid) for f, pid in items if any(("/" + n + ".patch") in f or ("/" + n + "/patch.diff") in f for n in names)]
        shard = (0, 1)
        if "--shard" in a:
            i, n = a[a.index("--shard") + 1].split("/"); shard = (int(i), int(n))
        for k, (f, pid) in enumerate(items):
            if only and pid != only: continue
            if k % shard[1] != shard[0]: continue
            results.append((f, pid, run_one(f, pid, tier, seed)))
        if "--out" in a:
            json.dump([{"patch": os.path.relpath(f, "/verif"), "property": pid, "result": r, "tier": tier, "seed": seed}
                       for f, pid, r in results], open(a[a.index("--out") + 1], "w"), indent=1)
        print("\nSUMMARY")
        for f, pid, r in results:
            print("  %-8s %s %s" % (r, pid, f))
        return 0
    patch, pid = a[0], a[1].upper()
    if patch == "none": patch = None
    r = run_one(patch, pid, tier, seed)
    return 0 if r == "CAUGHT" else 1

if __name__ == "__main__":
    sys.exit(main())
