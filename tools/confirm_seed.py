#!/usr/bin/env python3
"""Confirm a seeded change in its scratch worktree: demo fails with the patch, passes without,
and the touched crate's own tests still pass with the patch.
  [SEED_ROOT=/tmp/seed2 SEED_SUFFIX=b] tools/confirm_seed.py <ID> <crate> <demo test file (in seeded/<ID>/demo)> [extra crates to test...]
Appends the outcome to /verif/seeded/<ID>/meta.json under "confirmed_by_main"."""
import json, os, shutil, subprocess, sys, time
ID, crate, demo = sys.argv[1], sys.argv[2], sys.argv[3]
extra = sys.argv[4:]
ROOT = os.environ.get("SEED_ROOT", "/tmp/seed")
wt = "%s/%s" % (ROOT, ID)
sd = "/verif/seeded/%s%s" % (ID, os.environ.get("SEED_SUFFIX", ""))
env = dict(os.environ, CARGO_NET_OFFLINE="true", CARGO_TARGET_DIR=os.environ.get("CONFIRM_TARGET", "/tmp/seed/target-confirm"))
cdir = {"grin_chain": "chain", "grin_core": "core", "grin_store": "store", "grin_pool": "pool", "grin_p2p": "p2p",
        "grin_keychain": "keychain", "grin_util": "util", "grin_servers": "servers", "grin_api": "api"}[crate]
def sh(cmd, **kw):
    p = subprocess.run(cmd, cwd=wt, env=env, stdout=subprocess.PIPE, stderr=subprocess.STDOUT, text=True, **kw)
    return p.returncode, p.stdout
if not os.path.isdir(wt):
    subprocess.run(["git", "-C", "/repo", "worktree", "add", "--detach", wt, "HEAD"], check=True)
sh(["git", "checkout", "--", "."])
# agents may leave their demonstration (untracked) in a tests/ directory: the crate's own tests must run without it
sh(["git", "clean", "-fdq", "-e", "seed_out", "-e", "seed_logs", "-e", "seed_*"])
tname = os.path.splitext(os.path.basename(demo))[0]
dst = os.path.join(wt, cdir, "tests", os.path.basename(demo))
res = {}
t = time.time()
rc, out = sh(["git", "apply", os.path.join(sd, "patch.diff")])
assert rc == 0, out
rc, out = sh(["cargo", "test", "--offline", "-p", crate] + sum([["-p", c] for c in extra], []))
lines = [l for l in out.splitlines() if l.startswith("test result")]
res["crate_tests_with_patch"] = "ok" if rc == 0 else "FAILED"
res["crate_test_summary"] = "%d test binaries, all ok" % len(lines) if rc == 0 else lines[-8:]
os.makedirs(os.path.dirname(dst), exist_ok=True)
shutil.copy(os.path.join(sd, "demo", demo), dst)
rc, out = sh(["cargo", "test", "--offline", "-p", crate, "--test", tname])
res["demo_with_patch"] = "FAILED" if rc != 0 else "passed"
tail_with = out[-600:]
sh(["git", "checkout", "--", "."])
rc, out = sh(["cargo", "test", "--offline", "-p", crate, "--test", tname])
res["demo_without_patch"] = "passed" if rc == 0 else "FAILED"
os.remove(dst)
res["seconds"] = round(time.time() - t)
ok = res["demo_with_patch"] == "FAILED" and res["demo_without_patch"] == "passed" and res["crate_tests_with_patch"] == "ok"
res["confirmed"] = ok
m = json.load(open(os.path.join(sd, "meta.json")))
m["confirmed_by_main"] = res
json.dump(m, open(os.path.join(sd, "meta.json"), "w"), indent=1)
print(ID, "CONFIRMED" if ok else "NOT CONFIRMED", json.dumps(res)[:600])
if not ok:
    print(tail_with)
