#!/usr/bin/env python3
"""Regenerate section 10 of DESIGN.md ("which checks catch which changes") from
  /verif/selftest_results/*.json   (written by tools/selftest.py --all --out ...)
  /verif/seeded/*/meta.json        (summary, needs_to_manifest, confirmed_by_main)
  /verif/seeded/NOTES.json         (hand-written: what the check needed before it caught the change)
The text between the markers <!-- CATCH-TABLE-BEGIN --> and <!-- CATCH-TABLE-END --> is replaced."""
import json, glob, os, re, sys

res = {}
for f in sorted(glob.glob("/verif/selftest_results/*.json")):
    for r in json.load(open(f)):
        res[r["patch"]] = r
notes = json.load(open("/verif/seeded/NOTES.json")) if os.path.exists("/verif/seeded/NOTES.json") else {}

def short(s, n=330):
    s = " ".join(s.split())
    return s if len(s) <= n else s[: n - 1].rsplit(" ", 1)[0] + " …"

out = []
out.append("### 10.1 Changes written by independent sub-agents (`/verif/seeded/<id>/`)\n")
out.append("Each was confirmed in a scratch worktree (crate tests pass with the patch, the agent's demonstration fails with it and "
           "passes without it — `confirmed_by_main` in meta.json) and then run against the quick check of its property with "
           "`tools/selftest.py`.\n")
out.append("| seeded | change | needs to manifest | quick check | note |")
out.append("|---|---|---|---|---|")
for d in sorted(glob.glob("/verif/seeded/*/")):
    mf = os.path.join(d, "meta.json")
    if not os.path.exists(mf):
        continue
    m = json.load(open(mf))
    name = os.path.basename(d.rstrip("/"))
    key = "seeded/%s/patch.diff" % name
    r = res.get(key, {}).get("result")
    if r is None:
        # not part of the last sweep: the outcome recorded when its round was processed (NOTES.json)
        note = notes.get(name, "")
        r = "not run" if not note else ("NOT CAUGHT (see note)" if note.startswith("NOT") else "CAUGHT (when its round was processed)")
    out.append("| %s | %s | %s | %s | %s |" % (name, short(m.get("summary", "")).replace("|", "/"),
               short(m.get("needs_to_manifest", ""), 260).replace("|", "/"), r, notes.get(name, "").replace("|", "/")))
out.append("")
out.append("### 10.2 Hand-made mutants and reverted fixes (`/verif/mutants/`)\n")
out.append("`*-revert_*` is the reverse diff of a `fix:` commit: the check must report the original defect again.\n")
out.append("| mutant | property | quick check | note |")
out.append("|---|---|---|---|")
for f in sorted(glob.glob("/verif/mutants/*.patch")):
    name = os.path.basename(f)
    key = "mutants/" + name
    r = res.get(key, {}).get("result", "not run")
    out.append("| %s | %s | %s | %s |" % (name[:-6], name.split("-")[0].upper(), r, notes.get(name[:-6], "").replace("|", "/")))
out.append("")
txt = "\n".join(out)
p = "/verif/DESIGN.md"
s = open(p).read()
a, b = "<!-- CATCH-TABLE-BEGIN -->", "<!-- CATCH-TABLE-END -->"
if a not in s:
    print("markers missing in DESIGN.md"); sys.exit(1)
s = s[: s.index(a) + len(a)] + "\n" + txt + "\n" + s[s.index(b):]
open(p, "w").write(s)
n_c = sum(1 for r in res.values() if r["result"] == "CAUGHT")
print("table written: %d results, %d CAUGHT" % (len(res), n_c))
